package main

// Contract files: //@ lines in /repo/<pkg>/verif_contracts.go (build tag verif) and in
// /verif/contracts/*.spec (trusted contracts of external functions).

import (
	"fmt"
	"os"
	"regexp"
	"strconv"
	"strings"
)

type Clause struct {
	Kind  string // requires | ensures | invariant | decreases | canary | assert
	Label string
	Text  string
	E     *Expr
	Loop  int
	File  string
	Line  int
}

type LoopSpec struct {
	Invariants []*Clause
	Foreach    []*Clause // map range loops: foreach k int :: P(k) — P(key of this iteration) at every back edge, forall keys at exit
	Steps      []*Clause // transition invariants: checked at every back edge, may use prev(e) = value at the loop head of this iteration
	Decreases  *Clause
	GhostSets  [][2]*Expr // ghost assignments executed at every arrival at the loop head (entry and back edge), before the invariants
}

type FuncSpec struct {
	Key        string // pkgname.Recv.Name
	PkgName    string
	Header     string
	Props      []string
	Requires   []*Clause
	CrashInvs  []*Clause // asserted at entry and after every call of an external function with a contract (syscall boundary)
	Defines    []*Clause // ghost definitions: assumed at entry, not checked at call sites
	Ensures    []*Clause
	Canaries   []*Clause // ensures-clauses that must FAIL
	Modifies   []*Expr
	Preserves  []*Expr // with 'modifies everything': heap variables that are nevertheless left alone
	ModifiesT  []string
	HasMod     bool
	Loops      map[int]*LoopSpec
	Flags      map[string]string
	ParamNames []string
	ParamTypes []string
	ResNames   []string
	Extern     bool
	GhostSets  [][2]*Expr // on return: ghost location := value
	Before     map[string][]*Clause // "before <callee>: assert e": proved in the caller's state at every call of <callee>
	// "wakes[label] e": every blocking select in the function's own body has a receive case on the channel whose reference
	// is e - the event that must be able to end the wait (a sender must not sleep on a queue whose reader has gone)
	Wakes []*Clause
	File       string
	Line       int
	Used       bool
}

type PureFunc struct {
	Name    string
	PkgName string
	Params  []BoundVar
	Result  string
	Body    *Expr // nil = uninterpreted
	Text    string
}

type GhostDecl struct {
	Name    string // for fields: Type.name
	PkgName string
	Type    string
	IsField bool
	Scratch bool // may be overwritten by anybody: exempt from callers' frame checks, havocked at every contract call
}

type AxiomDecl struct {
	Name    string
	PkgName string
	E       *Expr
	Text    string
}

type GlobalInv struct {
	PkgName string
	E       *Expr
	Text    string
}

type SpecDB struct {
	Funcs   map[string]*FuncSpec
	Pures   map[string]*PureFunc // key pkgname.name and bare name
	Ghosts  map[string]*GhostDecl
	Axioms  []*AxiomDecl
	Globals []*GlobalInv
	Files   []string
	words   map[string]bool
}

func NewSpecDB() *SpecDB {
	return &SpecDB{Funcs: map[string]*FuncSpec{}, Pures: map[string]*PureFunc{}, Ghosts: map[string]*GhostDecl{}}
}

var clauseKeywords = map[string]bool{
	"property": true, "pure": true, "axiom": true, "ghost": true, "global": true, "func": true, "extern": true,
	"fieldspec": true, "before": true, "ghostset": true, "preserves": true, "crashinv": true, "define": true, "requires": true, "ensures": true, "modifies": true, "loop": true, "canary": true, "flag": true,
	"inline": true, "trusted": true, "assume": true, "wakes": true,
}

var headerRe = regexp.MustCompile(`^func\s*(?:\(\s*(?:(\w+)\s+)?\*?([\w.]+)(?:\[[^\]]*\])?\s*\)\s*)?([\w$.#]+)\s*\(`)

// stripComment removes a trailing // comment (outside of quotes).
func stripComment(s string) string {
	inS, inC := false, false
	for i := 0; i+1 < len(s); i++ {
		c := s[i]
		if c == '\\' && (inS || inC) {
			i++
			continue
		}
		if c == '"' && !inC {
			inS = !inS
		} else if c == '\'' && !inS {
			inC = !inC
		} else if c == '/' && s[i+1] == '/' && !inS && !inC {
			return strings.TrimRight(s[:i], " \t")
		}
	}
	return s
}

type rawClause struct {
	text string
	line int
}

func readRawClauses(file string) ([]rawClause, string, error) {
	data, err := os.ReadFile(file)
	if err != nil {
		return nil, "", err
	}
	var out []rawClause
	pkgName := ""
	for ln, line := range strings.Split(string(data), "\n") {
		t := strings.TrimSpace(line)
		if strings.HasPrefix(t, "package ") && pkgName == "" {
			pkgName = strings.TrimSpace(strings.TrimPrefix(t, "package "))
			continue
		}
		if !strings.HasPrefix(t, "//@") {
			continue
		}
		body := stripComment(t[3:])
		bt := strings.TrimSpace(body)
		if bt == "" {
			continue
		}
		first := bt
		if i := strings.IndexAny(first, " \t:[("); i >= 0 {
			first = first[:i]
		}
		if clauseKeywords[first] {
			out = append(out, rawClause{bt, ln + 1})
		} else if len(out) > 0 {
			out[len(out)-1].text += " " + bt
		} else {
			return nil, "", fmt.Errorf("%s:%d: continuation line without a clause", file, ln+1)
		}
	}
	return out, pkgName, nil
}

func splitTopLevel(s string, sep byte) []string {
	var parts []string
	depth := 0
	start := 0
	for i := 0; i < len(s); i++ {
		switch s[i] {
		case '(', '[', '{':
			depth++
		case ')', ']', '}':
			depth--
		default:
			if s[i] == sep && depth == 0 {
				parts = append(parts, strings.TrimSpace(s[start:i]))
				start = i + 1
			}
		}
	}
	parts = append(parts, strings.TrimSpace(s[start:]))
	return parts
}

func matchParen(s string, open int) int {
	depth := 0
	for i := open; i < len(s); i++ {
		switch s[i] {
		case '(':
			depth++
		case ')':
			depth--
			if depth == 0 {
				return i
			}
		}
	}
	return -1
}

func parseParamList(s string) []BoundVar {
	var out []BoundVar
	s = strings.TrimSpace(s)
	if s == "" {
		return nil
	}
	parts := splitTopLevel(s, ',')
	// handle "a, b int": propagate types backwards
	for _, p := range parts {
		p = strings.TrimSpace(p)
		i := strings.IndexAny(p, " \t")
		if i < 0 {
			out = append(out, BoundVar{Name: p})
		} else {
			out = append(out, BoundVar{Name: p[:i], Type: strings.TrimSpace(p[i+1:])})
		}
	}
	for i := len(out) - 2; i >= 0; i-- {
		if out[i].Type == "" {
			out[i].Type = out[i+1].Type
		}
	}
	return out
}

func (db *SpecDB) LoadFile(file string, defaultPkg string) error {
	raws, pkgName, err := readRawClauses(file)
	if err != nil {
		return err
	}
	if pkgName == "" {
		pkgName = defaultPkg
	}
	db.Files = append(db.Files, file)
	var fileProps []string
	var cur *FuncSpec
	errf := func(rc rawClause, f string, a ...interface{}) error {
		return fmt.Errorf("%s:%d: %s", file, rc.line, fmt.Sprintf(f, a...))
	}
	mkClause := func(rc rawClause, kind, text string) (*Clause, error) {
		label := ""
		text = strings.TrimSpace(text)
		if strings.HasPrefix(text, "[") {
			j := strings.IndexByte(text, ']')
			if j > 0 {
				label = text[1:j]
				text = strings.TrimSpace(text[j+1:])
			}
		}
		e, err := ParseExpr(text)
		if err != nil {
			return nil, errf(rc, "%v", err)
		}
		return &Clause{Kind: kind, Label: label, Text: text, E: e, File: file, Line: rc.line}, nil
	}
	for _, rc := range raws {
		t := rc.text
		word := t
		rest := ""
		if i := strings.IndexAny(t, " \t:[("); i >= 0 {
			word = t[:i]
			rest = strings.TrimSpace(t[i:])
		}
		switch word {
		case "property":
			ps := strings.Fields(rest)
			if cur == nil {
				fileProps = ps
			} else {
				cur.Props = ps
			}
		case "pure":
			// pure func name(params) R := body
			r := strings.TrimSpace(strings.TrimPrefix(rest, "func"))
			op := strings.IndexByte(r, '(')
			if op < 0 {
				return errf(rc, "bad pure func")
			}
			name := strings.TrimSpace(r[:op])
			cl := matchParen(r, op)
			if cl < 0 {
				return errf(rc, "bad pure func parens")
			}
			params := parseParamList(r[op+1 : cl])
			after := strings.TrimSpace(r[cl+1:])
			resType := after
			var body *Expr
			if i := strings.Index(after, ":="); i >= 0 {
				resType = strings.TrimSpace(after[:i])
				b, err := ParseExpr(after[i+2:])
				if err != nil {
					return errf(rc, "%v", err)
				}
				body = b
			}
			pf := &PureFunc{Name: name, PkgName: pkgName, Params: params, Result: resType, Body: body, Text: t}
			db.Pures[pkgName+"."+name] = pf
			cur = nil
		case "axiom":
			i := strings.IndexByte(rest, ':')
			if i < 0 {
				return errf(rc, "axiom needs a name")
			}
			e, err := ParseExpr(rest[i+1:])
			if err != nil {
				return errf(rc, "%v", err)
			}
			db.Axioms = append(db.Axioms, &AxiomDecl{Name: strings.TrimSpace(rest[:i]), PkgName: pkgName, E: e, Text: rest[i+1:]})
			cur = nil
		case "ghost":
			f := strings.Fields(rest)
			scratch := false
			if len(f) > 0 && f[0] == "scratch" {
				// `ghost scratch var x T`: a witness a function leaves for its OWN postcondition; anybody may overwrite it, so a
				// caller that does not list it in its modifies clause is not in breach of its frame
				scratch = true
				f = f[1:]
			}
			if len(f) < 3 {
				return errf(rc, "ghost [scratch] var|field name type")
			}
			gd := &GhostDecl{Name: f[1], PkgName: pkgName, Type: strings.Join(f[2:], " "), IsField: f[0] == "field", Scratch: scratch}
			db.Ghosts[pkgName+"."+gd.Name] = gd
			cur = nil
		case "global":
			e, err := ParseExpr(strings.TrimPrefix(rest, ":"))
			if err != nil {
				return errf(rc, "%v", err)
			}
			db.Globals = append(db.Globals, &GlobalInv{PkgName: pkgName, E: e, Text: rest})
			cur = nil
		case "extern", "func", "fieldspec":
			hdr := t
			ext := false
			if word == "extern" {
				ext = true
				hdr = strings.TrimSpace(rest)
			}
			if word == "fieldspec" {
				ext = true
				hdr = "func " + strings.TrimSpace(rest)
			}
			m := headerRe.FindStringSubmatch(hdr)
			if m == nil {
				return errf(rc, "cannot parse function header %q", hdr)
			}
			recvName, recvType, name := m[1], m[2], m[3]
			key := ""
			if recvType != "" {
				if strings.Contains(recvType, ".") {
					key = recvType + "." + name
				} else {
					key = pkgName + "." + recvType + "." + name
				}
			} else if strings.Contains(name, ".") && ext && word != "fieldspec" {
				key = name
			} else {
				key = pkgName + "." + name
			}
			fs := &FuncSpec{Key: key, PkgName: pkgName, Header: hdr, Props: fileProps, Loops: map[int]*LoopSpec{}, Flags: map[string]string{}, Extern: ext, File: file, Line: rc.line}
			// parameter names
			op := strings.Index(hdr, name+"(") + len(name)
			cl := matchParen(hdr, op)
			if cl < 0 {
				return errf(rc, "bad header parens")
			}
			if recvName != "" {
				fs.ParamNames = append(fs.ParamNames, recvName)
				fs.ParamTypes = append(fs.ParamTypes, recvType)
			} else if recvType != "" {
				fs.ParamNames = append(fs.ParamNames, "_recv")
				fs.ParamTypes = append(fs.ParamTypes, recvType)
			}
			for _, p := range parseParamList(hdr[op+1 : cl]) {
				fs.ParamNames = append(fs.ParamNames, p.Name)
				fs.ParamTypes = append(fs.ParamTypes, p.Type)
			}
			resTxt := strings.TrimSpace(hdr[cl+1:])
			if strings.HasPrefix(resTxt, "(") {
				for _, p := range parseParamList(resTxt[1 : len(resTxt)-1]) {
					if p.Type != "" {
						fs.ResNames = append(fs.ResNames, p.Name)
					} else {
						fs.ResNames = append(fs.ResNames, "")
					}
				}
			}
			if word == "fieldspec" {
				fs.Flags["fieldspec"] = "1"
			}
			if old := db.Funcs[key]; old != nil {
				return errf(rc, "duplicate contract for %s (also at %s:%d)", key, old.File, old.Line)
			}
			db.Funcs[key] = fs
			cur = fs
		case "requires", "ensures", "canary", "define", "crashinv", "wakes":
			if cur == nil {
				return errf(rc, "%s outside a func", word)
			}
			if word == "canary" {
				rest = strings.TrimSpace(strings.TrimPrefix(rest, "ensures"))
			}
			c, err := mkClause(rc, word, rest)
			if err != nil {
				return err
			}
			switch word {
			case "wakes":
				cur.Wakes = append(cur.Wakes, c)
			case "crashinv":
				cur.CrashInvs = append(cur.CrashInvs, c)
			case "define":
				cur.Defines = append(cur.Defines, c)
			case "requires":
				cur.Requires = append(cur.Requires, c)
			case "ensures":
				cur.Ensures = append(cur.Ensures, c)
			case "canary":
				cur.Canaries = append(cur.Canaries, c)
			}
		case "ghostset":
			if cur == nil {
				return errf(rc, "ghostset outside a func")
			}
			i := strings.Index(rest, ":=")
			if i < 0 {
				return errf(rc, "ghostset target := value")
			}
			te, err := ParseExpr(rest[:i])
			if err != nil {
				return errf(rc, "%v", err)
			}
			ve, err := ParseExpr(rest[i+2:])
			if err != nil {
				return errf(rc, "%v", err)
			}
			cur.GhostSets = append(cur.GhostSets, [2]*Expr{te, ve})
		case "preserves":
			if cur == nil {
				return errf(rc, "preserves outside a func")
			}
			for _, p := range splitTopLevel(rest, ',') {
				e, err := ParseExpr(p)
				if err != nil {
					return errf(rc, "%v", err)
				}
				cur.Preserves = append(cur.Preserves, e)
			}
		case "modifies":
			if cur == nil {
				return errf(rc, "modifies outside a func")
			}
			cur.HasMod = true
			for _, p := range splitTopLevel(rest, ',') {
				if p == "" || p == "nothing" {
					continue
				}
				e, err := ParseExpr(p)
				if err != nil {
					return errf(rc, "%v", err)
				}
				cur.Modifies = append(cur.Modifies, e)
				cur.ModifiesT = append(cur.ModifiesT, p)
			}
		case "loop":
			if cur == nil {
				return errf(rc, "loop outside a func")
			}
			// loop N: invariant e | loop N: decreases e
			i := strings.IndexByte(rest, ':')
			if i < 0 {
				return errf(rc, "loop N: ...")
			}
			n, err := strconv.Atoi(strings.TrimSpace(rest[:i]))
			if err != nil {
				return errf(rc, "bad loop ordinal")
			}
			r := strings.TrimSpace(rest[i+1:])
			kind := r
			body := ""
			if j := strings.IndexAny(r, " \t["); j >= 0 {
				kind = r[:j]
				body = r[j:]
			}
			ls := cur.Loops[n]
			if ls == nil {
				ls = &LoopSpec{}
				cur.Loops[n] = ls
			}
			if kind == "foreach" {
				b := strings.TrimSpace(body)
				lbl := ""
				if strings.HasPrefix(b, "[") {
					j := strings.IndexByte(b, ']')
					lbl = b[:j+1]
					b = strings.TrimSpace(b[j+1:])
				}
				body = lbl + " forall " + b
			}
			if kind == "ghostset" {
				k := strings.Index(body, ":=")
				if k < 0 {
					return errf(rc, "loop N: ghostset target := value")
				}
				te, err := ParseExpr(body[:k])
				if err != nil {
					return errf(rc, "%v", err)
				}
				ve, err := ParseExpr(body[k+2:])
				if err != nil {
					return errf(rc, "%v", err)
				}
				ls.GhostSets = append(ls.GhostSets, [2]*Expr{te, ve})
				continue
			}
			c, err := mkClause(rc, kind, body)
			if err != nil {
				return err
			}
			c.Loop = n
			switch kind {
			case "invariant":
				ls.Invariants = append(ls.Invariants, c)
			case "foreach":
				ls.Foreach = append(ls.Foreach, c)
			case "step":
				ls.Steps = append(ls.Steps, c)
			case "decreases":
				ls.Decreases = c
			default:
				return errf(rc, "unknown loop clause %q", kind)
			}
		case "before":
			if cur == nil {
				return errf(rc, "before outside a func")
			}
			// before <callee key>: assert[label] e
			i := strings.IndexByte(rest, ':')
			if i < 0 {
				return errf(rc, "before <callee>: assert e")
			}
			callee := strings.TrimSpace(rest[:i])
			r := strings.TrimSpace(rest[i+1:])
			if !strings.HasPrefix(r, "assert") {
				return errf(rc, "before <callee>: assert e")
			}
			c, err := mkClause(rc, "assert", r[len("assert"):])
			if err != nil {
				return err
			}
			if cur.Before == nil {
				cur.Before = map[string][]*Clause{}
			}
			cur.Before[callee] = append(cur.Before[callee], c)
		case "flag", "inline", "trusted":
			if cur == nil {
				return errf(rc, "flag outside a func")
			}
			if word != "flag" {
				cur.Flags[word] = "1"
			} else {
				for _, f := range strings.Fields(rest) {
					if i := strings.IndexByte(f, '='); i >= 0 {
						cur.Flags[f[:i]] = f[i+1:]
					} else {
						cur.Flags[f] = "1"
					}
				}
			}
		default:
			return errf(rc, "unknown clause %q", word)
		}
	}
	return nil
}

// mentionsWord: does any contract file mention the identifier (as a whole word)?
func (db *SpecDB) mentionsWord(w string) bool {
	if db.words == nil {
		db.words = map[string]bool{}
		re := regexp.MustCompile(`[A-Za-z_][A-Za-z0-9_]*`)
		for _, f := range db.Files {
			data, err := os.ReadFile(f)
			if err != nil {
				continue
			}
			for _, line := range strings.Split(string(data), "\n") {
				t := strings.TrimSpace(line)
				if strings.HasPrefix(t, "//@") {
					for _, m := range re.FindAllString(t, -1) {
						db.words[m] = true
					}
				}
			}
		}
	}
	return db.words[w]
}
