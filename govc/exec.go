package main

// Forward symbolic execution of go/ssa (NaiveForm) functions, path by path, loops cut at headers,
// calls replaced by contracts (or inlined when the callee has no contract).

import (
	"fmt"
	"go/ast"
	"go/constant"
	"go/token"
	"go/types"
	"runtime"
	"runtime/debug"
	"sort"
	"strings"
	"unicode/utf8"

	"golang.org/x/tools/go/ssa"
)

type Obligation struct {
	Unit       *Unit
	Name       string // kind/text (function prefix added on report)
	Kind       string
	Text       string
	Pos        token.Pos
	Props      []string
	Asserts    []Term
	Goal       Term
	Canary     bool
	Result     SolverResult
	Trace      []string
	Entry      map[string]Value // parameter name → entry value (for model extraction)
	EntryHeap  map[string]Term
	FrameField string // Go field name for frame obligations on struct fields
}

type Unit struct {
	opaquePtrs  map[string]bool // interior pointers turned into opaque values (see ptrTerm)
	eng         *Engine
	fn          *ssa.Function
	key         string
	spec        *FuncSpec
	obls        []*Obligation
	paths       int
	errs        []string
	props       []string
	maxPaths    int
	safety      bool // generate safety obligations
	entryVals   map[string]Value
	houdini     *houdiniRun
	noHoudini   bool
	inferred    map[string][]string // loop → inferred invariant names (reported)
	houdiniDead map[string]map[string]bool
	vacChecked  map[string]bool
	beforeHit   map[string]bool    // callees of "before <callee>: assert" clauses whose call was met
	orphanLoops []int              // loop ordinals the contract names beyond the loops the function has (a loop moved into a helper)
	adopted     map[*ssa.BasicBlock]int // loop header of an inlined helper without contract -> adopted orphan ordinal
	droppedInv  map[*Clause]string // unlabelled helper invariants that can no longer be evaluated on the code: not assumed, not checked
	// helpers without a contract whose body is outside the engine's subset: instead of giving the whole unit up (UNDECIDED)
	// their calls are abstracted as unmodelled calls (arbitrary results, one level of argument memory havocked) - an
	// over-approximation, so whatever is still proved holds; what fails is reported with no-failing-input-found unless a
	// replay confirms it
	abstract     map[string]bool
	wakesHit     bool // a blocking select was met in the unit's own body (for `wakes` clauses)
	wantAbstract string
}

type loopInfo struct {
	header  *ssa.BasicBlock
	body    map[*ssa.BasicBlock]bool
	ordinal int
	minPos  token.Pos
}

func (e *Engine) loopsOf(fn *ssa.Function) map[*ssa.BasicBlock]*loopInfo {
	loopCache := e.loopCache
	if l, ok := loopCache[fn]; ok {
		return l
	}
	res := map[*ssa.BasicBlock]*loopInfo{}
	for _, b := range fn.Blocks {
		for _, s := range b.Succs {
			if s.Dominates(b) {
				// back edge b -> s
				li := res[s]
				if li == nil {
					li = &loopInfo{header: s, body: map[*ssa.BasicBlock]bool{s: true}}
					res[s] = li
				}
				// natural loop
				var stack []*ssa.BasicBlock
				if !li.body[b] {
					li.body[b] = true
					stack = append(stack, b)
				}
				for len(stack) > 0 {
					x := stack[len(stack)-1]
					stack = stack[:len(stack)-1]
					for _, p := range x.Preds {
						if !li.body[p] {
							li.body[p] = true
							stack = append(stack, p)
						}
					}
				}
			}
		}
	}
	var lis []*loopInfo
	for _, li := range res {
		li.minPos = token.Pos(1 << 60)
		for b := range li.body {
			for _, in := range b.Instrs {
				if p := in.Pos(); p.IsValid() && p < li.minPos {
					li.minPos = p
				}
			}
		}
		lis = append(lis, li)
	}
	sort.Slice(lis, func(i, j int) bool {
		if lis[i].minPos != lis[j].minPos {
			return lis[i].minPos < lis[j].minPos
		}
		if len(lis[i].body) != len(lis[j].body) {
			return len(lis[i].body) > len(lis[j].body)
		}
		return lis[i].header.Index < lis[j].header.Index
	})
	for i, li := range lis {
		li.ordinal = i + 1
	}
	loopCache[fn] = res
	return res
}

// ---------------------------------------------------------------------------------------------

func (u *Unit) addObl(st *State, kind, text string, pos token.Pos, goal Term, canary bool) {
	if goal.S == "true" && !canary {
		return
	}
	if u.houdini != nil {
		return
	}
	o := &Obligation{Unit: u, Kind: kind, Text: text, Name: kind + "/" + text, Pos: pos, Goal: goal, Asserts: st.pcSlice(), Canary: canary,
		Trace: append([]string{}, st.trace...), Entry: u.entryVals}
	if st.entry != nil {
		o.EntryHeap = st.entry.heap
	}
	u.obls = append(u.obls, o)
}

func (st *State) check(kind, text string, pos token.Pos, goal Term) {
	if !st.u.safety && kind == "panic" && st.u.spec != nil && st.u.spec.Flags["checkpanics"] != "" && st.frame != nil && st.frame.parent == nil {
		// flag checkpanics: a functional-only unit that nevertheless proves its OWN explicit panics (panic, logger.Panic*,
		// logger.Fatal*) unreachable under its preconditions
		st.u.addObl(st, kind, text, pos, goal, false)
		st.assume(goal)
		return
	}
	if !st.u.safety {
		switch kind {
		case "index", "slice", "nil", "div0", "typeassert", "panic", "overflow", "writable", "closed", "nonblocking", "sharedkey":
			st.assume(goal)
			return
		case "pre@callsite":
			// flag nosafety: a functional-only unit - callee preconditions are assumed too (recorded as an assumption)
			st.eng().assumes["unit "+st.u.key+" is checked with `flag nosafety`: run-time checks and callee preconditions on its paths are assumed, only its own postconditions and invariants are decided"] = true
			st.assume(goal)
			return
		}
	}
	st.u.addObl(st, kind, text, pos, goal, false)
	// after checking, the fact may be assumed (execution continues only if it holds)
	st.assume(goal)
}

func (st *State) textAt(pos token.Pos, fallback string) string {
	if e, ok := st.eng().ld.exprAt[pos]; ok {
		return st.eng().ld.exprText(e)
	}
	return fallback
}

// ---------------------------------------------------------------------------------------------

func (e *Engine) NewUnit(fn *ssa.Function, spec *FuncSpec) *Unit {
	u := &Unit{eng: e, fn: fn, key: e.ld.keyOf[fn], spec: spec, maxPaths: 5000, safety: true}
	if u.key == "" {
		u.key = FuncKey(fn)
	}
	if spec != nil {
		u.props = spec.Props
	}
	return u
}

type pathEnd struct{}

func (u *Unit) Run() {
	for attempt := 0; attempt < 4; attempt++ {
		u.wantAbstract = ""
		u.runOnce()
		if u.wantAbstract == "" || u.houdini != nil {
			return
		}
		if u.abstract == nil {
			u.abstract = map[string]bool{}
		}
		u.abstract[u.wantAbstract] = true
		fmt.Printf("NOTE: %s: helper %s (no contract) uses a construct outside the verified subset (%s); its calls are abstracted as unmodelled calls\n", u.key, u.wantAbstract, strings.Join(u.errs, "; "))
		u.eng.assumes["helper abstracted as an unmodelled call (body outside the subset; results arbitrary, one level of argument memory havocked): "+u.wantAbstract] = true
		u.obls, u.errs, u.paths = nil, nil, 0
		u.inferred, u.houdiniDead, u.vacChecked, u.beforeHit, u.adopted, u.droppedInv = nil, nil, nil, nil, nil, nil
	}
}

func (u *Unit) runOnce() {
	defer func() {
		if r := recover(); r != nil {
			if ee, ok := r.(*EngineError); ok {
				u.errs = append(u.errs, ee.msg)
				return
			}
			panic(r)
		}
	}()
	e := u.eng
	fn := u.fn
	if fn.Blocks == nil {
		u.errs = append(u.errs, "function has no body")
		return
	}
	for _, b := range fn.Blocks {
		for _, in := range b.Instrs {
			if c, ok := in.(*ssa.Call); ok {
				if bi, ok := c.Call.Value.(*ssa.Builtin); ok && bi.Name() == "recover" {
					u.errs = append(u.errs, "function calls recover (unsupported)")
					return
				}
			}
		}
	}
	st := &State{u: u, cellVal: map[*Cell]Value{}, heap: map[string]Term{}, pcSet: map[string]bool{}, written: map[string]bool{}, fresh: map[string]bool{}}
	st.alloc = e.constNamed("alloc!0", SInt)
	st.assume(Ge(st.alloc, IntLit(0)))
	fr := &Frame{fn: fn, regs: map[ssa.Value]Value{}, cells: map[*ssa.Alloc]*Cell{}, loopsSeen: map[*ssa.BasicBlock]*loopEntry{}, params: map[string]Value{}, spec: u.spec}
	st.frame = fr
	for _, p := range fn.Params {
		v := st.symbolicValue("p_"+p.Name(), p.Type())
		fr.regs[p] = v
		fr.params[p.Name()] = v
	}
	if len(fn.FreeVars) > 0 {
		fr.freeVars = map[*ssa.FreeVar]Value{}
		for _, fv := range fn.FreeVars {
			// free variables are pointers to captured variables: model as cells with symbolic content
			pt, ok := fv.Type().Underlying().(*types.Pointer)
			if !ok {
				v := st.symbolicValue("fv_"+fv.Name(), fv.Type())
				fr.freeVars[fv] = v
				fr.params[fv.Name()] = v
				continue
			}
			c := &Cell{Name: fv.Name(), T: pt.Elem()}
			st.cellVal[c] = st.symbolicValue("fv_"+fv.Name(), pt.Elem())
			fr.freeVars[fv] = Value{T: fv.Type(), Ptr: &Pointer{Kind: RCell, Cell: c, RootT: pt.Elem()}}
			fr.params[fv.Name()] = st.cellVal[c]
		}
	}
	u.entryVals = fr.params
	// global invariants (not inside the package initialisers that establish them)
	if u.spec == nil || u.spec.Flags["noglobals"] == "" {
		st.assumeGlobalInvs()
	}
	// entry snapshot
	st.entry = st.clone()
	st.entry.entry = nil
	// requires
	if u.spec != nil {
		for _, c := range append(append([]*Clause{}, u.spec.Requires...), u.spec.Defines...) {
			env := st.newEnv(fr, nil)
			env.post = true
			t := env.evalBool(c.E)
			st.assumeAll(env.defs)
			st.assume(t)
		}
		if len(u.spec.Defines) > 0 {
			u.eng.assumes["ghost definitions ('define' clauses: recursive prefix sums / counts as uninterpreted functions with their recurrence assumed at entry) in "+u.key] = true
		}
		// the pre-state for old() must include the requires-facts' heap reads; re-snapshot
		ent := st.clone()
		ent.entry = nil
		st.entry = ent
	}
	fr.block = fn.Blocks[0]
	u.explore(st)
}

func (st *State) assumeAll(ts []Term) {
	for _, t := range ts {
		st.assume(t)
	}
}

// symbolicValue creates an unconstrained value of type T (with its type invariant assumed).
func (st *State) symbolicValue(name string, T types.Type) Value {
	e := st.eng()
	if tup, ok := T.(*types.Tuple); ok {
		var vs []Value
		for i := 0; i < tup.Len(); i++ {
			vs = append(vs, st.symbolicValue(fmt.Sprintf("%s_%d", name, i), tup.At(i).Type()))
		}
		return Value{T: T, Tup: vs}
	}
	t := e.fresh(name, e.sortOf(T))
	v := Value{T: T, Tm: t}
	st.assumeTypeInv(v)
	return v
}

func (u *Unit) explore(st *State) {
	defer func() {
		if r := recover(); r != nil {
			if _, ok := r.(pathEnd); ok {
				return
			}
			if ee, ok := r.(*EngineError); ok {
				msg := ee.msg
				if st.frame != nil && st.frame.depth > 0 && st.frame.spec == nil && !strings.HasPrefix(msg, "spec: ") && !u.abstract[FuncKey(st.frame.fn)] {
					u.wantAbstract = FuncKey(st.frame.fn)
				}
				if st.frame != nil && st.frame.block != nil && st.frame.idx < len(st.frame.block.Instrs) {
					in := st.frame.block.Instrs[st.frame.idx]
					msg += fmt.Sprintf(" [at %s in %s: %s]", u.eng.ld.posText(in.Pos()), st.frame.fn.Name(), in.String())
				}
				u.errs = append(u.errs, msg)
				return
			}
			if re, ok := r.(runtime.Error); ok {
				stack := string(debug.Stack())
				lines := strings.Split(stack, "\n")
				var keep []string
				for _, l := range lines {
					if strings.Contains(l, "/verif/govc/") && !strings.Contains(l, "exec.go:2") && !strings.Contains(l, "exec.go:3") {
						keep = append(keep, strings.TrimSpace(l))
					}
					if len(keep) >= 8 {
						break
					}
				}
				u.errs = append(u.errs, "internal error: "+re.Error()+" @ "+strings.Join(keep, " <- "))
				return
			}
			panic(r)
		}
	}()
	u.run(st)
}

func (u *Unit) run(st *State) {
	for {
		fr := st.frame
		if fr.idx == 0 && st.skipEnter {
			st.skipEnter = false
		} else if fr.idx == 0 {
			// entering a block
			if st.enterBlock() {
				u.paths++
				return
			}
		}
		if fr.idx >= len(fr.block.Instrs) {
			panic(engineErr("fell off block %d of %s", fr.block.Index, fr.fn.Name()))
		}
		in := fr.block.Instrs[fr.idx]
		done := u.step(st, in)
		if done {
			u.paths++
			if u.paths > u.maxPaths {
				panic(engineErr("path limit exceeded (%d)", u.maxPaths))
			}
			return
		}
	}
}

func (st *State) gotoBlock(b *ssa.BasicBlock) {
	fr := st.frame
	fr.prev = fr.block
	fr.block = b
	fr.idx = 0
}

// enterBlock handles loop headers. Returns true if the path ends here.
func (st *State) enterBlock() bool {
	fr := st.frame
	loops := st.eng().loopsOf(fr.fn)
	li := loops[fr.block]
	if li == nil {
		return false
	}
	var ls *LoopSpec
	if fr.spec != nil {
		ls = fr.spec.Loops[li.ordinal]
	}
	adoptedOrd := 0
	if fr.spec == nil && fr.parent != nil && st.u.spec != nil && len(st.u.orphanLoops) > 0 {
		// A loop the unit's contract speaks about was moved into a helper that has no contract of its own (the helper is
		// inlined): its loops adopt the orphaned loop clauses in order of first encounter. The clauses are checked there
		// like anywhere else (init / step), so a wrong pairing can only fail, never prove anything.
		u := st.u
		if u.adopted == nil {
			u.adopted = map[*ssa.BasicBlock]int{}
		}
		ord, ok := u.adopted[fr.block]
		if !ok && len(u.adopted) < len(u.orphanLoops) {
			ord = u.orphanLoops[len(u.adopted)]
			u.adopted[fr.block] = ord
			ok = true
		}
		if ok {
			ls = u.spec.Loops[ord]
			adoptedOrd = ord
		}
	}
	isTop := fr.parent == nil
	fkey := st.eng().ld.keyOf[fr.fn]
	_ = isTop
	back := fr.prev != nil && li.body[fr.prev] && fr.loopsSeen[fr.block] != nil
	pfx := fmt.Sprintf("loop%d", li.ordinal)
	if fr.parent != nil {
		pfx = shortKey(fkey) + "." + pfx
	}
	if adoptedOrd > 0 {
		pfx = fmt.Sprintf("loop%d", adoptedOrd) // named as in the contract
	}
	if ls != nil {
		for _, gs := range ls.GhostSets {
			env := st.newEnv(fr, nil)
			st.ghostAssign(env, gs[0], gs[1])
			st.assumeAll(env.defs)
		}
	}
	if back {
		if h := st.u.houdini; h != nil && h.header == fr.block && h.depth == fr.depth {
			h.states = append(h.states, st)
			return true
		}
		// back edge: prove invariants, decreases; end path
		le := fr.loopsSeen[fr.block]
		if fr.parent == nil && ls != nil && (len(ls.Invariants) > 0 || len(ls.Steps) > 0) {
			// reachability canary: some path must go round the loop with a satisfiable path condition
			st.u.addObl(st, "canary", pfx+"/reach:backedge", fr.block.Instrs[0].Pos(), TFalse, true)
		}
		if ls != nil {
			for _, c := range ls.Invariants {
				env := st.newEnv(fr, nil)
				env.lentry = le.entry
				t, ok := st.invBool(env, c)
				if !ok {
					continue
				}
				st.assumeAll(env.defs)
				st.u.addObl(st, "loop-step", pfx+"/"+clauseName(c), fr.block.Instrs[0].Pos(), t, false)
			}
			for _, c := range ls.Foreach {
				kt, ok := fr.foreachKey[li.ordinal]
				if !ok {
					continue
				}
				q := c.E
				env := st.newEnv(fr, nil)
				env.vars[q.Bound[0].Name] = Value{T: mathInt, Tm: kt}
				t := env.evalBool(q.Args[0])
				st.assumeAll(env.defs)
				st.u.addObl(st, "loop-step", pfx+"/foreach:"+clauseName(c), fr.block.Instrs[0].Pos(), t, false)
			}
			for _, c := range ls.Steps {
				if le.head == nil {
					continue
				}
				env := st.newEnv(fr, nil)
				env.prev = le.head
				env.lentry = le.entry
				t := env.evalBool(c.E)
				st.assumeAll(env.defs)
				st.u.addObl(st, "loop-step", pfx+"/step:"+clauseName(c), fr.block.Instrs[0].Pos(), t, false)
			}
			if ls.Decreases != nil && le.has {
				env := st.newEnv(fr, nil)
				d := env.evalInt(ls.Decreases.E)
				st.assumeAll(env.defs)
				st.u.addObl(st, "decreases", pfx+"/"+clauseName(ls.Decreases), fr.block.Instrs[0].Pos(), And(Lt(d, le.decr), Ge(le.decr, IntLit(0))), false)
			}
		}
		return true
	}
	// entry edge
	if ls != nil {
		for _, c := range ls.Invariants {
			env := st.newEnv(fr, nil)
			t, ok := st.invBool(env, c)
			if !ok {
				continue
			}
			st.assumeAll(env.defs)
			st.u.addObl(st, "loop-init", pfx+"/"+clauseName(c), fr.block.Instrs[0].Pos(), t, false)
		}
	}
	preLoop := st.clone()
	ws := st.havocLoop(li)
	le := &loopEntry{entry: preLoop}
	if ls != nil {
		for _, c := range ls.Invariants {
			env := st.newEnv(fr, nil)
			env.lentry = preLoop
			t, ok := st.invBool(env, c)
			if !ok {
				continue
			}
			st.assumeAll(env.defs)
			st.assume(t)
		}
		if ls.Decreases != nil {
			env := st.newEnv(fr, nil)
			d := env.evalInt(ls.Decreases.E)
			st.assumeAll(env.defs)
			dv := st.eng().fresh("decr", SInt)
			st.assume(Eq(dv, d))
			le.decr = dv
			le.has = true
		}
	}
	fr.loopsSeen[fr.block] = le
	if ls != nil && len(ls.Steps) > 0 {
		le.head = st.clone()
	}
	inf := st.inferInvariants(preLoop, li, ws)
	var names []string
	for _, c := range inf {
		if t, ok := c.eval(st); ok {
			st.assume(t)
			names = append(names, c.name)
		}
	}
	if len(names) > 0 && st.u.houdini == nil {
		if st.u.inferred == nil {
			st.u.inferred = map[string][]string{}
		}
		st.u.inferred[pfx] = names
	}
	return false
}

func shortKey(k string) string {
	if i := strings.IndexByte(k, '.'); i >= 0 {
		return k[i+1:]
	}
	return k
}

// invBool evaluates a loop invariant. An UNLABELLED (helper) invariant that names something the code no longer has is
// dropped for this unit - it is then neither assumed nor checked, which can only make the remaining obligations harder -
// instead of failing the whole contract; a labelled invariant is a claim and stays a contract mismatch.
func (st *State) invBool(env *Env, c *Clause) (t Term, ok bool) {
	if _, dropped := st.u.droppedInv[c]; dropped {
		return TTrue, false
	}
	if c.Label != "" {
		return env.evalBool(c.E), true
	}
	defer func() {
		if r := recover(); r != nil {
			if ee, isEE := r.(*EngineError); isEE && strings.HasPrefix(ee.msg, "spec: ") {
				if st.u.droppedInv == nil {
					st.u.droppedInv = map[*Clause]string{}
				}
				st.u.droppedInv[c] = ee.msg
				t, ok = TTrue, false
				return
			}
			panic(r)
		}
	}()
	return env.evalBool(c.E), true
}

func clauseName(c *Clause) string {
	if c.Label != "" {
		return c.Label
	}
	t := c.Text
	if len(t) > 90 {
		t = t[:87] + "..."
	}
	return t
}

// ---------------------------------------------------------------------------------------------
// operand evaluation

func (st *State) val(v ssa.Value) Value {
	fr := st.frame
	switch x := v.(type) {
	case *ssa.Const:
		return st.constVal(x)
	case *ssa.Global:
		pt := x.Type().Underlying().(*types.Pointer)
		return Value{T: x.Type(), Ptr: &Pointer{Kind: RGlobal, Glob: "G_" + sanitize(x.Pkg.Pkg.Name()+"_"+x.Name()), RootT: pt.Elem()}}
	case *ssa.Function:
		return Value{T: x.Type(), Clo: &Closure{Fn: x}}
	case *ssa.FreeVar:
		if r, ok := fr.freeVars[x]; ok {
			return r
		}
		panic(engineErr("unbound free variable %s", x.Name()))
	case *ssa.Builtin:
		return Value{T: x.Type()}
	}
	if r, ok := fr.regs[v]; ok {
		return r
	}
	panic(engineErr("unbound SSA value %s (%T) in %s", v.Name(), v, fr.fn.Name()))
}

func (st *State) constVal(c *ssa.Const) Value {
	e := st.eng()
	T := c.Type()
	if c.Value == nil {
		// zero value / nil
		return Value{T: T, Tm: e.zeroOf(T)}
	}
	switch c.Value.Kind() {
	case constant.Bool:
		return Value{T: T, Tm: BoolLit(constant.BoolVal(c.Value))}
	case constant.Int:
		if isFloat(T) {
			return Value{T: T, Tm: e.f64Const(c.Value.ExactString())}
		}
		return Value{T: T, Tm: IntLitStr(c.Value.ExactString())}
	case constant.String:
		return Value{T: T, Tm: st.strLit(constant.StringVal(c.Value))}
	case constant.Float:
		if isInteger(T) {
			return Value{T: T, Tm: IntLitStr(c.Value.ExactString())}
		}
		return Value{T: T, Tm: e.f64Const(c.Value.ExactString())}
	}
	panic(engineErr("unsupported constant %s", c))
}

// strLit returns a Str term for a literal; its bytes are asserted as facts about a named array.
func (st *State) strLit(s string) Term {
	e := st.eng()
	if s == "" {
		return emptyStr
	}
	name, ok := e.strLits[s]
	if !ok {
		name = fmt.Sprintf("lit%d_%s", len(e.strLits), sanitize(trunc(s, 12)))
		e.strLits[s] = name
		e.declare(name, fmt.Sprintf("(declare-const %s (Array Int Int))", name))
	}
	arr := Term{name, ArraySort(SInt, SInt)}
	if len(s) <= 64 {
		var cs []Term
		for i := 0; i < len(s); i++ {
			cs = append(cs, Eq(Select(arr, IntLit(int64(i))), IntLit(int64(s[i]))))
		}
		st.assume(And(cs...))
	}
	e.litStrs[name] = s
	lt := MkStr4(arr, IntLit(0), IntLit(int64(len(s))), IntLit(0))
	if pf := e.specs.Pures["prelude.vutf8"]; pf != nil && utf8.ValidString(s) {
		// a literal that is valid UTF-8 satisfies the (otherwise uninterpreted) predicate of the catalogue
		fn := "pf_prelude_vutf8"
		e.declare(fn, fmt.Sprintf("(declare-fun %s (Int) Bool)", fn))
		st.assume(app(SBool, fn, st.strKey(lt)))
	}
	return lt
}

func trunc(s string, n int) string {
	if len(s) > n {
		return s[:n]
	}
	return s
}

// ---------------------------------------------------------------------------------------------
// instruction semantics. Returns true when the path ends.

func (u *Unit) step(st *State, in ssa.Instruction) bool {
	fr := st.frame
	e := u.eng
	set := func(v ssa.Value, val Value) {
		fr.regs[v] = val
	}
	advance := func() { fr.idx++ }
	switch x := in.(type) {
	case *ssa.DebugRef:
		advance()
	case *ssa.Alloc:
		T := x.Type().Underlying().(*types.Pointer).Elem()
		if _, isArr := types.Unalias(T).Underlying().(*types.Array); isArr {
			// arrays live in Mem
			ref := st.newRef()
			el := elemOf(T)
			name, sort := e.memName(el)
			m := st.heapGet(name, sort)
			st.heapSet(name, sort, Store(m, ref, constArray(ArraySort(SInt, e.sortOf(el)), e.zeroOf(el))))
			set(x, Value{T: x.Type(), Ptr: &Pointer{Kind: RObj, Ref: ref, RootT: T}, Tm: ref})
		} else if x.Heap {
			ref := st.newRef()
			p := &Pointer{Kind: RObj, Ref: ref, RootT: T}
			st.store(p, Value{T: T, Tm: e.zeroOf(T)})
			set(x, Value{T: x.Type(), Ptr: p, Tm: ref})
		} else {
			c := fr.cells[x]
			if c == nil {
				c = &Cell{Name: x.Comment, T: T}
				fr.cells[x] = c
			}
			st.cellVal[c] = Value{T: T, Tm: e.zeroOf(T)}
			set(x, Value{T: x.Type(), Ptr: &Pointer{Kind: RCell, Cell: c, RootT: T}})
		}
		advance()
	case *ssa.Store:
		addr := st.val(x.Addr)
		v := st.val(x.Val)
		p := st.asPointer(addr)
		st.nilCheck(p, x.Pos(), "store")
		st.store(p, v)
		advance()
	case *ssa.UnOp:
		set(x, st.unop(x))
		advance()
	case *ssa.BinOp:
		set(x, st.binop(x.Op, st.val(x.X), st.val(x.Y), x.Type(), x.Pos()))
		advance()
	case *ssa.Phi:
		// choose by predecessor
		found := false
		for i, p := range fr.block.Preds {
			if p == fr.prev {
				set(x, st.val(x.Edges[i]))
				found = true
				break
			}
		}
		if !found {
			panic(engineErr("phi without matching predecessor"))
		}
		advance()
	case *ssa.Convert:
		set(x, st.convert(st.val(x.X), x.Type(), x.Pos()))
		advance()
	case *ssa.ChangeType:
		v := st.val(x.X)
		v.T = x.Type()
		set(x, v)
		advance()
	case *ssa.ChangeInterface:
		v := st.val(x.X)
		v.T = x.Type()
		set(x, v)
		advance()
	case *ssa.MakeInterface:
		set(x, st.makeInterface(st.val(x.X), x.Type()))
		advance()
	case *ssa.FieldAddr:
		base := st.val(x.X)
		p := st.asPointer(base)
		if p.Kind == RObj && len(p.Path) == 0 {
			st.nilCheck(p, x.Pos(), "field")
		}
		stT := p.elemType()
		np := p.extend(PStep{Field: x.Field, T: stT})
		set(x, Value{T: x.Type(), Ptr: np})
		advance()
	case *ssa.Field:
		v := st.val(x.X)
		ft := types.Unalias(v.T).Underlying().(*types.Struct).Field(x.Field).Type()
		r := Value{T: ft, Tm: e.structField(v.T, v.Tm, x.Field)}
		set(x, r)
		advance()
	case *ssa.IndexAddr:
		set(x, st.indexAddr(x))
		advance()
	case *ssa.Index:
		set(x, st.indexVal(x))
		advance()
	case *ssa.Slice:
		set(x, st.sliceOp(x))
		advance()
	case *ssa.MakeSlice:
		ln := st.val(x.Len)
		cp := st.val(x.Cap)
		el := elemOf(x.Type())
		st.check("panic", "makeslice: "+st.textAt(x.Pos(), "len/cap in range"), x.Pos(), And(Ge(ln.Tm, IntLit(0)), Le(ln.Tm, cp.Tm)))
		ref := st.newRef()
		name, sort := e.memName(el)
		m := st.heapGet(name, sort)
		st.heapSet(name, sort, Store(m, ref, constArray(ArraySort(SInt, e.sortOf(el)), e.zeroOf(el))))
		set(x, Value{T: x.Type(), Tm: MkSlice(ref, IntLit(0), ln.Tm, cp.Tm)})
		advance()
	case *ssa.Extract:
		t := st.val(x.Tuple)
		if x.Index >= len(t.Tup) {
			panic(engineErr("extract from non-tuple"))
		}
		set(x, t.Tup[x.Index])
		advance()
	case *ssa.Jump:
		st.gotoBlock(fr.block.Succs[0])
	case *ssa.If:
		c := st.val(x.Cond)
		if c.Tm.S == "true" {
			st.gotoBlock(fr.block.Succs[0])
			return false
		}
		if c.Tm.S == "false" {
			st.gotoBlock(fr.block.Succs[1])
			return false
		}
		other := st.clone()
		other.assume(Not(c.Tm))
		other.gotoBlock(other.frame.block.Succs[1])
		other.trace = append(other.trace, fmt.Sprintf("%s:!(%s)", e.ld.posText(instrPos(fr.block)), condText(e, x)))
		u.explore(other)
		st.assume(c.Tm)
		st.trace = append(st.trace, fmt.Sprintf("%s:(%s)", e.ld.posText(instrPos(fr.block)), condText(e, x)))
		st.gotoBlock(fr.block.Succs[0])
	case *ssa.Return:
		var res []Value
		for _, r := range x.Results {
			res = append(res, st.val(r))
		}
		return st.doReturn(res, x.Pos())
	case *ssa.RunDefers:
		if len(fr.defers) > 0 {
			d := fr.defers[len(fr.defers)-1]
			fr.defers = fr.defers[:len(fr.defers)-1]
			// re-execute this RunDefers after the deferred call returns
			st.doCall(nil, d.call, d.fnv, d.args, d.pos, true)
			return false
		}
		advance()
	case *ssa.Defer:
		fnv, args := st.evalCallOperands(&x.Call)
		fr.defers = append(fr.defers, Deferred{call: &x.Call, args: args, fnv: fnv, pos: x.Pos()})
		advance()
	case *ssa.Go:
		// spawn: the goroutine body is a unit of its own; arguments are evaluated. `before <callee>: assert` clauses of the
		// spawning unit are proved at the spawn (they speak about the arguments the goroutine is started with)
		_, gargs := st.evalCallOperands(&x.Call)
		if callee := x.Call.StaticCallee(); callee != nil {
			gkey := st.eng().ld.keyOf[callee]
			if gkey == "" {
				gkey = FuncKey(callee)
			}
			st.beforeAsserts(gkey, gargs, x.Pos())
		}
		advance()
	case *ssa.Panic:
		st.check("panic", "explicit panic: "+st.textAt(x.Pos(), "panic"), x.Pos(), TFalse)
		return true
	case *ssa.Call:
		if isDeferStack(x) {
			set(x, Value{T: x.Type(), Tm: IntLit(0)})
			advance()
			return false
		}
		fnv, args := st.evalCallOperands(&x.Call)
		return st.doCall(x, &x.Call, fnv, args, x.Pos(), false)
	case *ssa.TypeAssert:
		set(x, st.typeAssert(x))
		advance()
	case *ssa.MakeClosure:
		var bs []Value
		for _, b := range x.Bindings {
			bs = append(bs, st.val(b))
		}
		set(x, Value{T: x.Type(), Clo: &Closure{Fn: x.Fn.(*ssa.Function), Bindings: bs}})
		advance()
	case *ssa.MakeMap:
		set(x, st.makeMap(x))
		advance()
	case *ssa.MapUpdate:
		st.mapUpdate(x)
		advance()
	case *ssa.Lookup:
		set(x, st.lookup(x))
		advance()
	case *ssa.Range:
		set(x, st.rangeInit(x))
		advance()
	case *ssa.Next:
		set(x, st.rangeNext(x))
		advance()
	case *ssa.MakeChan:
		set(x, st.makeChan(x))
		advance()
	case *ssa.Send:
		st.chanSend(x)
		advance()
	case *ssa.Select:
		return st.selectOp(x)
	case *ssa.SliceToArrayPointer, *ssa.MultiConvert:
		panic(engineErr("unsupported instruction %T", in))
	default:
		panic(engineErr("unsupported instruction %T: %s", in, in))
	}
	return false
}

func isDeferStack(c *ssa.Call) bool {
	if b, ok := c.Call.Value.(*ssa.Builtin); ok && b.Name() == "ssa:deferstack" {
		return true
	}
	return false
}

func instrPos(b *ssa.BasicBlock) token.Pos {
	for i := len(b.Instrs) - 1; i >= 0; i-- {
		if p := b.Instrs[i].Pos(); p.IsValid() {
			return p
		}
		if d, ok := b.Instrs[i].(*ssa.DebugRef); ok && d.Expr != nil {
			return d.Expr.Pos()
		}
	}
	return token.NoPos
}

func condText(e *Engine, x *ssa.If) string {
	// find the debug ref of the condition
	b := x.Block()
	for i := len(b.Instrs) - 1; i >= 0; i-- {
		if d, ok := b.Instrs[i].(*ssa.DebugRef); ok && d.X == x.Cond && d.Expr != nil {
			return e.ld.exprText(d.Expr)
		}
	}
	return x.Cond.Name()
}

func (st *State) nilCheck(p *Pointer, pos token.Pos, what string) {
	if p.Kind != RObj {
		return
	}
	if st.fresh[p.Ref.S] {
		return
	}
	st.check("nil", st.textAt(pos, what), pos, Ne(p.Ref, IntLit(0)))
}

func (st *State) unop(x *ssa.UnOp) Value {
	e := st.eng()
	v := st.val(x.X)
	switch x.Op {
	case token.MUL: // load
		p := st.asPointer(v)
		st.nilCheck(p, x.Pos(), "deref")
		r := st.load(p)
		if r.T == nil {
			r.T = x.Type()
		}
		// values loaded from a struct field keep their origin for fnspec / fieldspec lookup
		if r.Clo == nil && r.Origin == "" {
			switch types.Unalias(x.Type()).Underlying().(type) {
			case *types.Signature, *types.Pointer, *types.Interface:
				r.Origin = st.fieldOrigin(p)
				// func-typed parameter of the function: spec key <function>.param.<name> ("fieldspec F.param.cb(...)")
				if _, isSig := types.Unalias(x.Type()).Underlying().(*types.Signature); isSig && r.Origin == "" && p.Cell != nil && len(p.Path) == 0 {
					for _, pv := range st.frame.fn.Params {
						if pv.Name() == p.Cell.Name {
							fk := st.eng().ld.keyOf[st.frame.fn]
							if fk == "" {
								fk = FuncKey(st.frame.fn)
							}
							if k := fk + ".param." + pv.Name(); st.eng().specs.Funcs[k] != nil {
								r.Origin = k
							}
						}
					}
				}
			}
		}
		return r
	case token.NOT:
		return Value{T: x.Type(), Tm: Not(v.Tm)}
	case token.SUB:
		if isFloat(x.Type()) {
			return Value{T: x.Type(), Tm: st.uf("f64neg", SF64, v.Tm)}
		}
		return Value{T: x.Type(), Tm: st.wrap(Neg(v.Tm), x.Type())}
	case token.XOR:
		// bitwise complement
		b := types.Unalias(x.Type()).Underlying().(*types.Basic)
		bits, signed := intBits(b)
		if signed {
			return Value{T: x.Type(), Tm: Sub(Neg(v.Tm), IntLit(1))}
		}
		return Value{T: x.Type(), Tm: Sub(Term{pow2(bits), SInt}, Add(v.Tm, IntLit(1)))}
	case token.ARROW:
		return st.chanRecv(x, v)
	}
	_ = e
	panic(engineErr("unsupported unop %s", x.Op))
}

func (st *State) fieldOrigin(p *Pointer) string {
	if len(p.Path) == 0 {
		if p.Kind == RElem && p.SliceT != nil {
			if n, ok := types.Unalias(p.SliceT).(*types.Named); ok && n.Obj().Pkg() != nil {
				return n.Obj().Pkg().Name() + "." + n.Obj().Name() + ".elem"
			}
		}
		return ""
	}
	last := p.Path[len(p.Path)-1]
	if last.IsIdx {
		return ""
	}
	T := types.Unalias(last.T)
	if n, ok := T.(*types.Named); ok {
		pk := ""
		if n.Obj().Pkg() != nil {
			pk = n.Obj().Pkg().Name() + "."
		}
		return pk + n.Obj().Name() + "." + n.Underlying().(*types.Struct).Field(last.Field).Name()
	}
	return ""
}

func (st *State) uf(name string, res Sort, args ...Term) Term {
	e := st.eng()
	var as []string
	for _, a := range args {
		as = append(as, string(a.Sort))
	}
	e.declare(name, fmt.Sprintf("(declare-fun %s (%s) %s)", name, strings.Join(as, " "), res))
	return app(res, name, args...)
}

// wrap reduces an exact integer result into the range of an unsigned type; signed results are
// left exact (overflow assumed absent / checked separately).
func (st *State) wrap(t Term, T types.Type) Term {
	b, ok := types.Unalias(T).Underlying().(*types.Basic)
	if !ok || b.Info()&types.IsInteger == 0 {
		return t
	}
	bits, signed := intBits(b)
	if signed {
		return t
	}
	if n, ok := isIntLit(t); ok && n >= 0 && (bits == 64 || n < (int64(1)<<uint(bits))) {
		return t
	}
	return Mod(t, Term{pow2(bits), SInt})
}

// strRank: order embedding of string content keys into the integers (injective); see DESIGN.md, assumptions
func (st *State) strRank(key Term) Term {
	e := st.eng()
	e.declare("strrank", "(declare-fun strrank (Int) Int)\n(assert (forall ((x Int) (y Int)) (! (=> (= (strrank x) (strrank y)) (= x y)) :pattern ((strrank x) (strrank y)))))")
	e.assumes["strings are ordered through an injective order embedding (strrank) of their content keys into the integers; the empty string is not known to be least"] = true
	return app(SInt, "strrank", key)
}

func (st *State) binop(op token.Token, a, b Value, resT types.Type, pos token.Pos) Value {
	e := st.eng()
	T := a.T
	mk := func(t Term) Value { return Value{T: resT, Tm: t} }
	// comparisons
	switch op {
	case token.EQL, token.NEQ:
		eq := st.equalVals(a, b)
		if op == token.NEQ {
			eq = Not(eq)
		}
		return mk(eq)
	}
	if isString(T) {
		switch op {
		case token.ADD:
			return mk(st.concat(a.Tm, b.Tm))
		case token.LSS, token.LEQ, token.GTR, token.GEQ:
			// lexicographic order through an order embedding of the content keys: strrank is injective
			ra, rb := st.strRank(st.strKey(a.Tm)), st.strRank(st.strKey(b.Tm))
			switch op {
			case token.LSS:
				return mk(Lt(ra, rb))
			case token.LEQ:
				return mk(Le(ra, rb))
			case token.GTR:
				return mk(Gt(ra, rb))
			}
			return mk(Ge(ra, rb))
		}
	}
	if isFloat(T) {
		switch op {
		case token.ADD, token.SUB, token.MUL, token.QUO:
			return mk(st.uf("f64"+map[token.Token]string{token.ADD: "add", token.SUB: "sub", token.MUL: "mul", token.QUO: "div"}[op], SF64, a.Tm, b.Tm))
		case token.LSS, token.LEQ, token.GTR, token.GEQ:
			return mk(st.uf("f64"+map[token.Token]string{token.LSS: "lt", token.LEQ: "le", token.GTR: "gt", token.GEQ: "ge"}[op], SBool, a.Tm, b.Tm))
		}
	}
	if isBool(T) {
		switch op {
		case token.LAND, token.AND:
			return mk(And(a.Tm, b.Tm))
		case token.LOR, token.OR:
			return mk(Or(a.Tm, b.Tm))
		}
	}
	switch op {
	case token.LSS:
		return mk(Lt(a.Tm, b.Tm))
	case token.LEQ:
		return mk(Le(a.Tm, b.Tm))
	case token.GTR:
		return mk(Gt(a.Tm, b.Tm))
	case token.GEQ:
		return mk(Ge(a.Tm, b.Tm))
	case token.ADD:
		return mk(st.arith(Add(a.Tm, b.Tm), resT, pos, "+"))
	case token.SUB:
		return mk(st.arith(Sub(a.Tm, b.Tm), resT, pos, "-"))
	case token.MUL:
		return mk(st.arith(Mul(a.Tm, b.Tm), resT, pos, "*"))
	case token.QUO:
		st.check("div0", st.textAt(pos, "division"), pos, Ne(b.Tm, IntLit(0)))
		return mk(st.truncDiv(a.Tm, b.Tm))
	case token.REM:
		st.check("div0", st.textAt(pos, "remainder"), pos, Ne(b.Tm, IntLit(0)))
		q := st.truncDiv(a.Tm, b.Tm)
		return mk(Sub(a.Tm, Mul(q, b.Tm)))
	case token.SHL:
		if n, ok := isIntLit(b.Tm); ok && n >= 0 && n < 64 {
			return mk(st.wrapSigned(Mul(a.Tm, Term{pow2(int(n)), SInt}), resT))
		}
		// general: 2^b via ite chain
		return mk(st.wrapSigned(Mul(a.Tm, st.pow2Term(b.Tm)), resT))
	case token.SHR:
		if n, ok := isIntLit(b.Tm); ok && n >= 0 && n < 64 {
			return mk(Div(a.Tm, Term{pow2(int(n)), SInt}))
		}
		return mk(Div(a.Tm, st.pow2Term(b.Tm)))
	case token.AND, token.OR, token.XOR, token.AND_NOT:
		return mk(st.bitop(op, a, b, resT))
	}
	_ = e
	panic(engineErr("unsupported binop %s on %s", op, T))
}

func (st *State) pow2Term(b Term) Term {
	t := Term{pow2(63), SInt}
	for i := 62; i >= 0; i-- {
		t = Ite(Eq(b, IntLit(int64(i))), Term{pow2(i), SInt}, t)
	}
	return t
}

func (st *State) wrapSigned(t Term, T types.Type) Term {
	b, ok := types.Unalias(T).Underlying().(*types.Basic)
	if !ok {
		return t
	}
	bits, signed := intBits(b)
	if !signed {
		return Mod(t, Term{pow2(bits), SInt})
	}
	// signed shift left: assume no overflow (reported assumption)
	return t
}

func (st *State) arith(t Term, T types.Type, pos token.Pos, op string) Term {
	b, ok := types.Unalias(T).Underlying().(*types.Basic)
	if !ok || b.Info()&types.IsInteger == 0 {
		return t
	}
	bits, signed := intBits(b)
	if !signed {
		if n, ok := isIntLit(t); ok && n >= 0 && (bits == 64 || n < (int64(1)<<uint(bits))) {
			return t
		}
		return Mod(t, Term{pow2(bits), SInt})
	}
	if st.u.spec != nil && st.u.spec.Flags["overflow"] != "" && st.frame.parent == nil {
		lo, hi, _ := intRange(b)
		st.check("overflow", st.textAt(pos, op), pos, And(Le(Term{lo, SInt}, t), Le(t, Term{hi, SInt})))
	}
	return t
}

// truncDiv: Go's truncated division expressed with SMT's floor div (for positive divisor) semantics
func (st *State) truncDiv(a, b Term) Term {
	// if a >= 0 then a div b (SMT div rounds so that remainder >= 0) equals trunc for b>0 and for b<0
	// general: ite(a >= 0, div(a,b), -div(-a, b))
	if n, ok := isIntLit(b); ok && n > 0 {
		return Ite(Ge(a, IntLit(0)), Div(a, b), Neg(Div(Neg(a), b)))
	}
	return Ite(Ge(a, IntLit(0)), Div(a, b), Neg(Div(Neg(a), b)))
}

func bitOf(x Term, i int) Term {
	return Mod(Div(x, Term{pow2(i), SInt}), IntLit(2))
}

func (st *State) bitop(op token.Token, a, b Value, resT types.Type) Term {
	bt, ok := types.Unalias(resT).Underlying().(*types.Basic)
	if !ok {
		panic(engineErr("bitop on non-basic"))
	}
	bits, signed := intBits(bt)
	ca, aLit := isIntLit(a.Tm)
	cb, bLit := isIntLit(b.Tm)
	if aLit && bLit {
		switch op {
		case token.AND:
			return IntLit(ca & cb)
		case token.OR:
			return IntLit(ca | cb)
		case token.XOR:
			return IntLit(ca ^ cb)
		case token.AND_NOT:
			return IntLit(ca &^ cb)
		}
	}
	// x & (2^k - 1) → mod
	if op == token.AND && (aLit || bLit) {
		c, x := cb, a.Tm
		if aLit {
			c, x = ca, b.Tm
		}
		if c >= 0 && (c&(c+1)) == 0 && !signed {
			return Mod(x, IntLit(c+1))
		}
		if c >= 0 && (c&(c+1)) == 0 && signed {
			// for signed non-negative x the same; for negative x two's complement mod also holds
			return Mod(x, IntLit(c+1))
		}
	}
	if bits > 16 && !(aLit || bLit) {
		return st.uf(fmt.Sprintf("bit%s%d", map[token.Token]string{token.AND: "and", token.OR: "or", token.XOR: "xor", token.AND_NOT: "andnot"}[op], bits), SInt, a.Tm, b.Tm)
	}
	// expand bitwise over the width (operands non-negative representation)
	n := bits
	if aLit || bLit {
		// limit to the bits that matter
		if bits > 16 {
			c := cb
			if aLit {
				c = ca
			}
			if c < 0 || c >= 1<<16 {
				return st.uf(fmt.Sprintf("bit%s%d", map[token.Token]string{token.AND: "and", token.OR: "or", token.XOR: "xor", token.AND_NOT: "andnot"}[op], bits), SInt, a.Tm, b.Tm)
			}
			if op == token.AND {
				n = 16
			} else {
				// or/xor with a small constant: high part of x unchanged
				x := a.Tm
				if aLit {
					x = b.Tm
				}
				hi := Mul(Div(x, Term{pow2(16), SInt}), Term{pow2(16), SInt})
				lo := st.bitExpand(op, Mod(a.Tm, Term{pow2(16), SInt}), Mod(b.Tm, Term{pow2(16), SInt}), 16)
				return Add(hi, lo)
			}
		}
	}
	return st.bitExpand(op, a.Tm, b.Tm, n)
}

func (st *State) bitExpand(op token.Token, a, b Term, n int) Term {
	var sum Term = IntLit(0)
	for i := 0; i < n; i++ {
		ba, bb := bitOf(a, i), bitOf(b, i)
		var bit Term
		switch op {
		case token.AND:
			bit = Mul(ba, bb)
			if x, ok := isIntLit(a); ok {
				if (x>>uint(i))&1 == 1 {
					bit = bb
				} else {
					bit = IntLit(0)
				}
			} else if y, ok := isIntLit(b); ok {
				if (y>>uint(i))&1 == 1 {
					bit = ba
				} else {
					bit = IntLit(0)
				}
			}
		case token.OR:
			bit = Ite(Or(Eq(ba, IntLit(1)), Eq(bb, IntLit(1))), IntLit(1), IntLit(0))
			if x, ok := isIntLit(a); ok {
				if (x>>uint(i))&1 == 1 {
					bit = IntLit(1)
				} else {
					bit = bb
				}
			} else if y, ok := isIntLit(b); ok {
				if (y>>uint(i))&1 == 1 {
					bit = IntLit(1)
				} else {
					bit = ba
				}
			}
		case token.XOR:
			bit = Ite(Eq(ba, bb), IntLit(0), IntLit(1))
		case token.AND_NOT:
			bit = Ite(And(Eq(ba, IntLit(1)), Eq(bb, IntLit(0))), IntLit(1), IntLit(0))
		}
		if bit.S == "0" {
			continue
		}
		sum = Add(sum, Mul(bit, Term{pow2(i), SInt}))
	}
	return sum
}

func (st *State) equalVals(a, b Value) Term {
	e := st.eng()
	// pointers
	if a.Ptr != nil || b.Ptr != nil {
		at, aok := st.tryPtrTerm(a)
		bt, bok := st.tryPtrTerm(b)
		if aok && bok {
			return Eq(at, bt)
		}
		// pointer to local vs nil etc.
		if (aok && at.S == "0") || (bok && bt.S == "0") {
			return TFalse
		}
		panic(engineErr("comparison of non-heap pointers"))
	}
	if a.Clo != nil || b.Clo != nil {
		// func == nil
		if a.Clo != nil && b.Clo == nil {
			return TFalse
		}
		if b.Clo != nil && a.Clo == nil {
			return TFalse
		}
	}
	T := a.T
	if T == nil {
		T = b.T
	}
	if isString(T) {
		return st.strEq(a.Tm, b.Tm)
	}
	if isInterface(T) || (b.T != nil && isInterface(b.T)) {
		return Eq(a.Tm, b.Tm)
	}
	if stt, ok := types.Unalias(T).Underlying().(*types.Struct); ok {
		var cs []Term
		for i := 0; i < stt.NumFields(); i++ {
			ft := stt.Field(i).Type()
			cs = append(cs, st.equalVals(Value{T: ft, Tm: e.structField(T, a.Tm, i)}, Value{T: ft, Tm: e.structField(T, b.Tm, i)}))
		}
		return And(cs...)
	}
	if isSlice(T) {
		// only comparison with nil is legal in Go
		if b.Tm.S == nilSlice.S {
			return Eq(SlRef(a.Tm), IntLit(0))
		}
		if a.Tm.S == nilSlice.S {
			return Eq(SlRef(b.Tm), IntLit(0))
		}
	}
	return Eq(a.Tm, b.Tm)
}

func (st *State) tryPtrTerm(v Value) (Term, bool) {
	if v.Ptr == nil {
		return v.Tm, !v.Tm.IsZero()
	}
	if v.Ptr.Kind == RObj && len(v.Ptr.Path) == 0 {
		return v.Ptr.Ref, true
	}
	return Term{}, false
}

// strEq: content equality of two strings
func (st *State) strEq(a, b Term) Term {
	if a.S == b.S {
		return TTrue
	}
	// literal on one side: expand
	if n, arr, ok := st.litStr(b); ok {
		return st.strEqLit(a, n, arr)
	}
	if n, arr, ok := st.litStr(a); ok {
		return st.strEqLit(b, n, arr)
	}
	i := Term{"i!q", SInt}
	return And(Eq(StrLen(a), StrLen(b)),
		Forall([]Term{i}, Implies(And(Le(IntLit(0), i), Lt(i, StrLen(a))),
			Eq(Select(StrArr(a), Ix(StrOff(a), i)), Select(StrArr(b), Ix(StrOff(b), i))))))
}

func (st *State) litStr(t Term) (int, string, bool) {
	litStrs := st.eng().litStrs
	if t.S == emptyStr.S {
		return 0, "", true
	}
	if strings.HasPrefix(t.S, "(mkstr lit") {
		f := strings.Fields(t.S[1 : len(t.S)-1])
		if len(f) == 5 && f[2] == "0" {
			if s, ok := litStrs[f[1]]; ok {
				return len(s), s, true
			}
		}
	}
	return 0, "", false
}

func (st *State) strEqLit(a Term, n int, lit string) Term {
	cs := []Term{Eq(StrLen(a), IntLit(int64(n)))}
	for i := 0; i < n; i++ {
		cs = append(cs, Eq(Select(StrArr(a), Ix(StrOff(a), IntLit(int64(i)))), IntLit(int64(lit[i]))))
	}
	return And(cs...)
}

func (st *State) concat(a, b Term) Term {
	e := st.eng()
	if a.S == emptyStr.S {
		return b
	}
	if b.S == emptyStr.S {
		return a
	}
	arr := e.fresh("cat", ArraySort(SInt, SInt))
	i := Term{"i!q", SInt}
	la, lb := StrLen(a), StrLen(b)
	st.assume(Forall([]Term{i}, Implies(And(Le(IntLit(0), i), Lt(i, la)), Eq(Select(arr, i), Select(StrArr(a), Ix(StrOff(a), i))))))
	st.assume(Forall([]Term{i}, Implies(And(Le(IntLit(0), i), Lt(i, lb)), Eq(Select(arr, Ix(la, i)), Select(StrArr(b), Ix(StrOff(b), i))))))
	return MkStr4(arr, IntLit(0), Add(la, lb), IntLit(2)) // own 2: heap memory nobody else holds
}

func (st *State) convert(v Value, T types.Type, pos token.Pos) Value {
	e := st.eng()
	from := v.T
	switch {
	case isInteger(from) && isInteger(T):
		bt := types.Unalias(T).Underlying().(*types.Basic)
		bf := types.Unalias(from).Underlying().(*types.Basic)
		tb, ts := intBits(bt)
		fb, fs := intBits(bf)
		if n, ok := isIntLit(v.Tm); ok {
			_ = n
		}
		if tb > fb && (ts || !fs) {
			return Value{T: T, Tm: v.Tm} // widening, value preserved
		}
		if tb == fb && ts == fs {
			return Value{T: T, Tm: v.Tm}
		}
		// narrowing or sign change: reduce modulo 2^tb
		m := Mod(v.Tm, Term{pow2(tb), SInt})
		if ts {
			m = Ite(Ge(m, Term{pow2(tb - 1), SInt}), Sub(m, Term{pow2(tb), SInt}), m)
		}
		return Value{T: T, Tm: m}
	case isString(T) && isSlice(from):
		// string(bytes): snapshot copy
		el := elemOf(from)
		name, sort := e.memName(el)
		m := st.heapGet(name, sort)
		return Value{T: T, Tm: MkStr4(Select(m, SlRef(v.Tm)), SlOff(v.Tm), SlLen(v.Tm), IntLit(2))}
	case isSlice(T) && isString(from):
		el := elemOf(T)
		ref := st.newRef()
		name, sort := e.memName(el)
		m := st.heapGet(name, sort)
		st.heapSet(name, sort, Store(m, ref, StrArr(v.Tm)))
		return Value{T: T, Tm: MkSlice(ref, StrOff(v.Tm), StrLen(v.Tm), StrLen(v.Tm))}
	case isFloat(T) && isInteger(from):
		return Value{T: T, Tm: st.uf("f64fromint", SF64, v.Tm)}
	case isInteger(T) && isFloat(from):
		r := st.uf("f64toint", SInt, v.Tm)
		return Value{T: T, Tm: r}
	case isFloat(T) && isFloat(from):
		return Value{T: T, Tm: v.Tm}
	case isString(T) && isInteger(from):
		return Value{T: T, Tm: st.uf("strfromrune", SStr, v.Tm)}
	case isPointer(T) || isPointer(from):
		// unsafe.Pointer conversions
		if v.Ptr != nil {
			return Value{T: T, Ptr: v.Ptr, Tm: v.Tm}
		}
		return Value{T: T, Tm: v.Tm}
	}
	if b, ok := types.Unalias(T).Underlying().(*types.Basic); ok && b.Kind() == types.UnsafePointer {
		return Value{T: T, Ptr: v.Ptr, Tm: v.Tm}
	}
	panic(engineErr("unsupported conversion %s -> %s", from, T))
}

func (st *State) makeInterface(v Value, T types.Type) Value {
	e := st.eng()
	id := IntLit(int64(e.typeID(v.T)))
	var payload Term
	switch {
	case v.Ptr != nil:
		payload = st.ptrTerm(v)
	case v.Clo != nil:
		payload = st.closureTerm(v)
	case v.Tm.Sort == SInt:
		payload = v.Tm
	case v.Tm.Sort == SBool:
		payload = Ite(v.Tm, IntLit(1), IntLit(0))
	default:
		sn := sanitize(string(v.Tm.Sort))
		payload = st.uf("ibox_"+sn, SInt, v.Tm)
		un := st.uf("iunbox_"+sn, v.Tm.Sort, payload)
		st.assume(Eq(un, v.Tm))
	}
	return Value{T: T, Tm: MkIface(id, payload)}
}

func (st *State) typeAssert(x *ssa.TypeAssert) Value {
	e := st.eng()
	v := st.val(x.X)
	T := x.AssertedType
	if isInterface(T) {
		// interface-to-interface: cannot be decided from the tag alone
		ok := e.fresh("iface_ok", SBool)
		res := Value{T: T, Tm: v.Tm}
		if x.CommaOk {
			return Value{T: x.Type(), Tup: []Value{{T: T, Tm: Ite(ok, v.Tm, nilIface)}, {T: types.Typ[types.Bool], Tm: ok}}}
		}
		st.check("typeassert", st.textAt(x.Pos(), "type assertion"), x.Pos(), Ne(IfType(v.Tm), IntLit(0)))
		return res
	}
	id := IntLit(int64(e.typeID(T)))
	okT := Eq(IfType(v.Tm), id)
	var payload Term
	s := e.sortOf(T)
	switch s {
	case SInt:
		payload = IfVal(v.Tm)
	case SBool:
		payload = Eq(IfVal(v.Tm), IntLit(1))
	default:
		payload = st.uf("iunbox_"+sanitize(string(s)), s, IfVal(v.Tm))
	}
	if x.CommaOk {
		val := Value{T: T, Tm: Ite(okT, payload, e.zeroOf(T))}
		return Value{T: x.Type(), Tup: []Value{val, {T: types.Typ[types.Bool], Tm: okT}}}
	}
	st.check("typeassert", st.textAt(x.Pos(), "type assertion"), x.Pos(), okT)
	r := Value{T: T, Tm: payload}
	st.assumeTypeInv(r)
	return r
}

func (st *State) indexAddr(x *ssa.IndexAddr) Value {
	e := st.eng()
	base := st.val(x.X)
	idx := st.val(x.Index)
	pos := x.Pos()
	txt := st.textAt(pos, x.X.Name()+"["+x.Index.Name()+"]")
	switch t := types.Unalias(base.T).Underlying().(type) {
	case *types.Slice:
		st.check("index", txt, pos, And(Le(IntLit(0), idx.Tm), Lt(idx.Tm, SlLen(base.Tm))))
		_ = e
		return Value{T: x.Type(), Ptr: &Pointer{Kind: RElem, Ref: SlRef(base.Tm), Idx: Ix(SlOff(base.Tm), idx.Tm), RootT: t.Elem(), SliceT: base.T}}
	case *types.Pointer:
		arr := types.Unalias(t.Elem()).Underlying().(*types.Array)
		st.check("index", txt, pos, And(Le(IntLit(0), idx.Tm), Lt(idx.Tm, IntLit(arr.Len()))))
		p := st.asPointer(base)
		if p.Kind == RObj && len(p.Path) == 0 {
			// array object in Mem
			st.nilCheck(p, pos, "index")
			return Value{T: x.Type(), Ptr: &Pointer{Kind: RElem, Ref: p.Ref, Idx: idx.Tm, RootT: arr.Elem()}}
		}
		return Value{T: x.Type(), Ptr: p.extend(PStep{IsIdx: true, Idx: idx.Tm, T: t.Elem()})}
	}
	panic(engineErr("indexAddr on %s", base.T))
}

func (st *State) indexVal(x *ssa.Index) Value {
	base := st.val(x.X)
	idx := st.val(x.Index)
	pos := x.Pos()
	txt := st.textAt(pos, x.X.Name()+"["+x.Index.Name()+"]")
	switch t := types.Unalias(base.T).Underlying().(type) {
	case *types.Basic: // string
		st.check("index", txt, pos, And(Le(IntLit(0), idx.Tm), Lt(idx.Tm, StrLen(base.Tm))))
		r := Value{T: x.Type(), Tm: Select(StrArr(base.Tm), Ix(StrOff(base.Tm), idx.Tm))}
		st.assumeTypeInv(r)
		return r
	case *types.Array:
		st.check("index", txt, pos, And(Le(IntLit(0), idx.Tm), Lt(idx.Tm, IntLit(t.Len()))))
		r := Value{T: x.Type(), Tm: Select(base.Tm, idx.Tm)}
		st.assumeTypeInv(r)
		return r
	}
	panic(engineErr("index on %s", base.T))
}

func (st *State) sliceOp(x *ssa.Slice) Value {
	base := st.val(x.X)
	pos := x.Pos()
	txt := st.textAt(pos, "slice")
	var lo, hi, mx Term
	if x.Low != nil {
		lo = st.val(x.Low).Tm
	} else {
		lo = IntLit(0)
	}
	switch t := types.Unalias(base.T).Underlying().(type) {
	case *types.Basic: // string
		ln := StrLen(base.Tm)
		if x.High != nil {
			hi = st.val(x.High).Tm
		} else {
			hi = ln
		}
		st.check("slice", txt, pos, And(Le(IntLit(0), lo), Le(lo, hi), Le(hi, ln)))
		return Value{T: x.Type(), Tm: MkStr4(StrArr(base.Tm), Add(StrOff(base.Tm), lo), Sub(hi, lo), StrOwn(base.Tm))}
	case *types.Slice:
		cp := SlCap(base.Tm)
		if x.High != nil {
			hi = st.val(x.High).Tm
		} else {
			hi = SlLen(base.Tm)
		}
		if x.Max != nil {
			mx = st.val(x.Max).Tm
			st.check("slice", txt, pos, And(Le(IntLit(0), lo), Le(lo, hi), Le(hi, mx), Le(mx, cp)))
		} else {
			mx = cp
			st.check("slice", txt, pos, And(Le(IntLit(0), lo), Le(lo, hi), Le(hi, cp)))
		}
		return Value{T: x.Type(), Tm: MkSlice(SlRef(base.Tm), Add(SlOff(base.Tm), lo), Sub(hi, lo), Sub(mx, lo))}
	case *types.Pointer:
		arr := types.Unalias(t.Elem()).Underlying().(*types.Array)
		p := st.asPointer(base)
		if !(p.Kind == RObj && len(p.Path) == 0) {
			if p.Kind == RObj && len(p.Path) >= 1 && !p.Path[0].IsIdx {
				// a slice of an array embedded in a struct (x.f[:]): the array lives inside the field heap of f, a slice
				// addresses element memory - the two views are not unified. Sound over-approximation: the slice gets an
				// unknown backing array (it may alias anything; its contents are arbitrary), and from here on the field heap
				// of f is "escaped": every read of it on this path yields arbitrary content, since a write through the slice
				// may have changed it. What is still proved holds; the evidence lists the assumption-free abstraction.
				name, _ := st.eng().fieldHeapName(p.Path[0].T, p.Path[0].Field)
				if st.escaped == nil {
					st.escaped = map[string]bool{}
				} else {
					m := make(map[string]bool, len(st.escaped)+1)
					for k, v := range st.escaped {
						m[k] = v
					}
					st.escaped = m
				}
				st.escaped[name] = true
				st.eng().assumes["slice of an array embedded in a struct: contents arbitrary, the field's heap havocked at every later read (over-approximation): "+name] = true
				n := IntLit(arr.Len())
				if x.High != nil {
					hi = st.val(x.High).Tm
				} else {
					hi = n
				}
				st.check("slice", txt, pos, And(Le(IntLit(0), lo), Le(lo, hi), Le(hi, n)))
				ref := st.eng().fresh("embarr", SInt)
				st.assume(Gt(ref, IntLit(0)))
				return Value{T: x.Type(), Tm: MkSlice(ref, lo, Sub(hi, lo), Sub(n, lo))}
			}
			panic(engineErr("slicing an embedded array"))
		}
		n := IntLit(arr.Len())
		if x.High != nil {
			hi = st.val(x.High).Tm
		} else {
			hi = n
		}
		st.check("slice", txt, pos, And(Le(IntLit(0), lo), Le(lo, hi), Le(hi, n)))
		return Value{T: x.Type(), Tm: MkSlice(p.Ref, lo, Sub(hi, lo), Sub(n, lo))}
	}
	panic(engineErr("slice of %s", base.T))
}

// doReturn handles a return instruction. For the top frame it checks the postconditions.
func (st *State) doReturn(res []Value, pos token.Pos) bool {
	fr := st.frame
	if fr.parent == nil {
		st.u.checkPost(st, res, pos)
		return true
	}
	// pop inlined frame
	parent := fr.parent
	call := fr.callInstr
	st.frame = parent
	if fr.inDefer {
		// re-execute RunDefers in the parent
		return false
	}
	if v, ok := call.(ssa.Value); ok {
		var rv Value
		switch len(res) {
		case 0:
			rv = Value{T: v.Type()}
		case 1:
			rv = res[0]
		default:
			rv = Value{T: v.Type(), Tup: res}
		}
		parent.regs[v] = rv
	}
	parent.idx++
	return false
}

func (u *Unit) checkPost(st *State, res []Value, pos token.Pos) {
	fr := st.frame
	if u.spec == nil {
		return
	}
	// reachability canary: at least one path must reach a return with a satisfiable path condition (a contract or
	// engine fact that contradicts the context would otherwise prove everything after it)
	if u.houdini == nil && u.spec.Flags["noreturn"] == "" {
		u.addObl(st, "canary", "reach:return", pos, TFalse, true)
	}
	// ghost assignments performed at return (before the postconditions are checked)
	for _, gs := range u.spec.GhostSets {
		env := st.newEnv(fr, res)
		env.post = true
		func() {
			defer func() {
				if r := recover(); r != nil {
					if ee, ok := r.(*EngineError); ok && (strings.Contains(ee.msg, "unknown identifier") || strings.Contains(ee.msg, "no such local")) {
						// the value names a local that does not exist on this path (an early return): the ghost variable keeps
						// its value here
						return
					}
					panic(r)
				}
			}()
			st.ghostAssign(env, gs[0], gs[1])
		}()
		st.assumeAll(env.defs)
	}
	for _, c := range u.spec.Ensures {
		if strings.HasPrefix(c.Label, "?") {
			// trusted clause (e.g. determinism of a pure constructor): assumed by callers, not checked here
			u.eng.assumes["trusted postcondition clause "+c.Label+" of "+u.key+": "+trunc(c.Text, 160)] = true
			continue
		}
		env := st.newEnv(fr, res)
		env.post = true
		t := env.evalBool(c.E)
		st.assumeAll(env.defs)
		u.addObl(st, "post", clauseName(c), pos, t, false)
	}
	for _, c := range u.spec.Canaries {
		env := st.newEnv(fr, res)
		env.post = true
		t := env.evalBool(c.E)
		st.assumeAll(env.defs)
		u.addObl(st, "canary", clauseName(c), pos, t, true)
	}
	u.checkFrame(st, pos)
}

var _ = ast.NewIdent

// ghostAssign: target is x.f with f a ghost field, or a ghost variable
func (st *State) ghostAssign(env *Env, target, value *Expr) {
	e := st.eng()
	v := env.eval(value)
	switch target.Kind {
	case ESel:
		base := env.eval(target.Args[0])
		pt, ok := types.Unalias(base.T).Underlying().(*types.Pointer)
		if !ok {
			panic(specErr("ghostset %s: base is not a pointer", target))
		}
		ref, _ := st.tryPtrTerm(base)
		hn := env.ghostFieldDecl(pt.Elem(), target.Op)
		if hn == "" {
			panic(specErr("ghostset %s: not a ghost field", target))
		}
		env.ghostField(pt.Elem(), target.Op, ref) // declares the heap
		sort := e.heapSorts[hn]
		h := st.heapGet(hn, sort)
		st.heapSet(hn, sort, Store(h, ref, v.Tm))
		return
	case EIndex:
		// ghostarr[idx] := v
		if target.Args[0].Kind == EIdent {
			if g := env.ghostVar(target.Args[0].Op); g != nil && strings.HasPrefix(string(g.Tm.Sort), "(Array") {
				hn := st.ghostHeapName(env, target.Args[0].Op)
				idx := env.eval(target.Args[1])
				st.heapSet(hn, g.Tm.Sort, Store(st.heapGet(hn, g.Tm.Sort), idx.Tm, v.Tm))
				return
			}
		}
	case EIdent:
		if g := env.ghostVar(target.Op); g != nil {
			pk := ""
			if env.pkg != nil {
				pk = env.pkg.Name()
			}
			if env.callee != nil {
				pk = env.callee.PkgName
			}
			gd := e.specs.Ghosts[pk+"."+target.Op]
			if gd == nil {
				gd = e.specs.Ghosts["prelude."+target.Op]
			}
			hn := "GH_" + sanitize(gd.PkgName+"_"+gd.Name)
			st.heapSet(hn, g.Tm.Sort, v.Tm)
			return
		}
	}
	panic(specErr("unsupported ghostset target %s", target))
}

func (st *State) ghostHeapName(env *Env, name string) string {
	e := st.eng()
	pk := ""
	if env.pkg != nil {
		pk = env.pkg.Name()
	}
	if env.callee != nil {
		pk = env.callee.PkgName
	}
	gd := e.specs.Ghosts[pk+"."+name]
	if gd == nil {
		gd = e.specs.Ghosts["prelude."+name]
	}
	return "GH_" + sanitize(gd.PkgName+"_"+gd.Name)
}
