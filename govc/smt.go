package main

// SMT term construction (plain s-expression strings with a sort tag) and the solver portfolio.

import (
	"bytes"
	"context"
	"fmt"
	"os"
	"os/exec"
	"path/filepath"
	"regexp"
	"sort"
	"strconv"
	"strings"
	"sync"
	"time"
)

type Sort string

const (
	SInt   Sort = "Int"
	SBool  Sort = "Bool"
	SStr   Sort = "Str"
	SSlice Sort = "Slice"
	SIface Sort = "Iface"
	SReal  Sort = "Real"
	SF64   Sort = "F64"
)

func ArraySort(k, v Sort) Sort { return Sort("(Array " + string(k) + " " + string(v) + ")") }

type Term struct {
	S    string
	Sort Sort
}

func (t Term) String() string { return t.S }
func (t Term) IsZero() bool   { return t.S == "" }

var (
	TTrue  = Term{"true", SBool}
	TFalse = Term{"false", SBool}
)

func IntLit(n int64) Term {
	if n < 0 {
		return Term{"(- " + strconv.FormatUint(uint64(-n), 10) + ")", SInt}
	}
	return Term{strconv.FormatInt(n, 10), SInt}
}

func IntLitStr(s string) Term {
	if strings.HasPrefix(s, "-") {
		return Term{"(- " + s[1:] + ")", SInt}
	}
	return Term{s, SInt}
}

func BoolLit(b bool) Term {
	if b {
		return TTrue
	}
	return TFalse
}

func app(sort Sort, op string, args ...Term) Term {
	var sb strings.Builder
	sb.WriteByte('(')
	sb.WriteString(op)
	for _, a := range args {
		sb.WriteByte(' ')
		sb.WriteString(a.S)
	}
	sb.WriteByte(')')
	return Term{sb.String(), sort}
}

func And(ts ...Term) Term {
	var xs []Term
	for _, t := range ts {
		if t.S == "true" {
			continue
		}
		if t.S == "false" {
			return TFalse
		}
		xs = append(xs, t)
	}
	if len(xs) == 0 {
		return TTrue
	}
	if len(xs) == 1 {
		return xs[0]
	}
	return app(SBool, "and", xs...)
}

func Or(ts ...Term) Term {
	var xs []Term
	for _, t := range ts {
		if t.S == "false" {
			continue
		}
		if t.S == "true" {
			return TTrue
		}
		xs = append(xs, t)
	}
	if len(xs) == 0 {
		return TFalse
	}
	if len(xs) == 1 {
		return xs[0]
	}
	return app(SBool, "or", xs...)
}

func Not(t Term) Term {
	if t.S == "true" {
		return TFalse
	}
	if t.S == "false" {
		return TTrue
	}
	if strings.HasPrefix(t.S, "(not ") {
		return Term{t.S[5 : len(t.S)-1], SBool}
	}
	return app(SBool, "not", t)
}

func Implies(a, b Term) Term {
	if a.S == "true" {
		return b
	}
	if a.S == "false" || b.S == "true" {
		return TTrue
	}
	return app(SBool, "=>", a, b)
}

func Eq(a, b Term) Term {
	if a.S == b.S {
		return TTrue
	}
	return app(SBool, "=", a, b)
}
func Ne(a, b Term) Term { return Not(Eq(a, b)) }
func Lt(a, b Term) Term { return app(SBool, "<", a, b) }
func Le(a, b Term) Term { return app(SBool, "<=", a, b) }
func Gt(a, b Term) Term { return app(SBool, ">", a, b) }
func Ge(a, b Term) Term { return app(SBool, ">=", a, b) }

func isIntLit(t Term) (int64, bool) {
	s := t.S
	neg := false
	if strings.HasPrefix(s, "(- ") && strings.HasSuffix(s, ")") {
		s = s[3 : len(s)-1]
		neg = true
	}
	n, err := strconv.ParseInt(s, 10, 64)
	if err != nil {
		return 0, false
	}
	if neg {
		n = -n
	}
	return n, true
}

func Add(a, b Term) Term {
	if x, ok := isIntLit(a); ok {
		if y, ok2 := isIntLit(b); ok2 {
			return IntLit(x + y)
		}
		if x == 0 {
			return b
		}
	}
	if y, ok := isIntLit(b); ok && y == 0 {
		return a
	}
	return app(SInt, "+", a, b)
}
func Sub(a, b Term) Term {
	if x, ok := isIntLit(a); ok {
		if y, ok2 := isIntLit(b); ok2 {
			return IntLit(x - y)
		}
	}
	if y, ok := isIntLit(b); ok && y == 0 {
		return a
	}
	return app(SInt, "-", a, b)
}
func Mul(a, b Term) Term {
	if x, ok := isIntLit(a); ok {
		if y, ok2 := isIntLit(b); ok2 {
			// avoid overflow in folding: only fold small numbers
			if x > -(1<<30) && x < (1<<30) && y > -(1<<30) && y < (1<<30) {
				return IntLit(x * y)
			}
		}
	}
	return app(SInt, "*", a, b)
}
func Div(a, b Term) Term { return app(SInt, "div", a, b) }
func Mod(a, b Term) Term { return app(SInt, "mod", a, b) }
func Neg(a Term) Term    { return app(SInt, "-", a) }
func Ite(c, a, b Term) Term {
	if c.S == "true" {
		return a
	}
	if c.S == "false" {
		return b
	}
	if a.S == b.S {
		return a
	}
	return app(a.Sort, "ite", c, a, b)
}

func Select(arr, idx Term) Term {
	s := string(arr.Sort)
	// (Array K V)
	_, v := splitArraySort(Sort(s))
	return app(v, "select", arr, idx)
}

func Store(arr, idx, v Term) Term { return app(arr.Sort, "store", arr, idx, v) }

func splitArraySort(s Sort) (Sort, Sort) {
	str := string(s)
	if !strings.HasPrefix(str, "(Array ") {
		panic("not an array sort: " + str)
	}
	body := str[7 : len(str)-1]
	// split at top-level space
	depth := 0
	for i := 0; i < len(body); i++ {
		switch body[i] {
		case '(':
			depth++
		case ')':
			depth--
		case ' ':
			if depth == 0 {
				return Sort(body[:i]), Sort(body[i+1:])
			}
		}
	}
	panic("bad array sort " + str)
}

func Forall(vars []Term, body Term) Term {
	if len(vars) == 0 || body.S == "true" {
		return body
	}
	var sb strings.Builder
	sb.WriteString("(forall (")
	for _, v := range vars {
		fmt.Fprintf(&sb, "(%s %s)", v.S, v.Sort)
	}
	sb.WriteString(") ")
	sb.WriteString(body.S)
	sb.WriteString(")")
	return Term{sb.String(), SBool}
}

// ForallPat: universally quantified fact with an explicit trigger
func ForallPat(vars []Term, body Term, pat Term) Term {
	var sb strings.Builder
	sb.WriteString("(forall (")
	for _, v := range vars {
		fmt.Fprintf(&sb, "(%s %s)", v.S, v.Sort)
	}
	sb.WriteString(") (! ")
	sb.WriteString(body.S)
	sb.WriteString(" :pattern (")
	sb.WriteString(pat.S)
	sb.WriteString(")))")
	return Term{sb.String(), SBool}
}

func Exists(vars []Term, body Term) Term {
	if len(vars) == 0 {
		return body
	}
	var sb strings.Builder
	sb.WriteString("(exists (")
	for _, v := range vars {
		fmt.Fprintf(&sb, "(%s %s)", v.S, v.Sort)
	}
	sb.WriteString(") ")
	sb.WriteString(body.S)
	sb.WriteString(")")
	return Term{sb.String(), SBool}
}

// Ix: the absolute index of element i of a view starting at off. An uninterpreted wrapper (with the
// defining axiom in the prelude) keeps quantifier triggers free of arithmetic.
func Ix(off, i Term) Term {
	if off.S == "0" {
		return i
	}
	if _, ok := isIntLit(off); ok {
		if _, ok2 := isIntLit(i); ok2 {
			return Add(off, i)
		}
	}
	return app(SInt, "ix", off, i)
}

// ctorArg returns the i-th argument of a constructor application "(ctor a0 a1 ...)".
func ctorArg(t Term, ctor string, i int) (string, bool) {
	s := t.S
	if !strings.HasPrefix(s, "("+ctor+" ") {
		return "", false
	}
	body := s[len(ctor)+2 : len(s)-1]
	depth := 0
	start := 0
	k := 0
	inBar := false
	for j := 0; j <= len(body); j++ {
		if j == len(body) || (body[j] == ' ' && depth == 0 && !inBar) {
			if j > start {
				if k == i {
					return body[start:j], true
				}
				k++
			}
			start = j + 1
			continue
		}
		switch body[j] {
		case '(':
			depth++
		case ')':
			depth--
		case '|':
			inBar = !inBar
		}
	}
	return "", false
}

func sel(sort Sort, selName, ctor string, i int, s Term) Term {
	if a, ok := ctorArg(s, ctor, i); ok {
		return Term{a, sort}
	}
	if strings.HasPrefix(s.S, "(ite ") {
		// push selectors through ite
		if c, ok := ctorArg(s, "ite", 0); ok {
			a, _ := ctorArg(s, "ite", 1)
			b, _ := ctorArg(s, "ite", 2)
			if strings.HasPrefix(a, "("+ctor+" ") && strings.HasPrefix(b, "("+ctor+" ") {
				return Ite(Term{c, SBool}, sel(sort, selName, ctor, i, Term{a, s.Sort}), sel(sort, selName, ctor, i, Term{b, s.Sort}))
			}
		}
	}
	return app(sort, selName, s)
}

// String datatype accessors: (mkstr arr off len own); own != 0 means the bytes are writable memory
func StrArr(s Term) Term { return sel(ArraySort(SInt, SInt), "sarr", "mkstr", 0, s) }
func StrOff(s Term) Term { return sel(SInt, "soff", "mkstr", 1, s) }
func StrLen(s Term) Term { return sel(SInt, "slen", "mkstr", 2, s) }
func StrOwn(s Term) Term { return sel(SInt, "sown", "mkstr", 3, s) }
func MkStr4(arr, off, ln, own Term) Term {
	return app(SStr, "mkstr", arr, off, ln, own)
}

// Slice datatype accessors
func SlRef(s Term) Term { return sel(SInt, "lref", "mkslice", 0, s) }
func SlOff(s Term) Term { return sel(SInt, "loff", "mkslice", 1, s) }
func SlLen(s Term) Term { return sel(SInt, "llen", "mkslice", 2, s) }
func SlCap(s Term) Term { return sel(SInt, "lcap", "mkslice", 3, s) }
func MkSlice(ref, off, ln, cp Term) Term {
	return app(SSlice, "mkslice", ref, off, ln, cp)
}

// Interface datatype
func IfType(s Term) Term { return sel(SInt, "ityp", "mkiface", 0, s) }
func IfVal(s Term) Term  { return sel(SInt, "ival", "mkiface", 1, s) }
func MkIface(t, v Term) Term {
	return app(SIface, "mkiface", t, v)
}

const smtPrelude = `(declare-datatypes ((Str 0)) (((mkstr (sarr (Array Int Int)) (soff Int) (slen Int) (sown Int)))))
(declare-datatypes ((Slice 0)) (((mkslice (lref Int) (loff Int) (llen Int) (lcap Int)))))
(declare-datatypes ((Iface 0)) (((mkiface (ityp Int) (ival Int)))))
(declare-sort F64 0)
(declare-fun ix (Int Int) Int)
(assert (forall ((o Int) (i Int)) (! (= (ix o i) (+ o i)) :pattern ((ix o i)))))
`

// ---------------------------------------------------------------------------------------------
// symbols

var symRe = regexp.MustCompile(`[A-Za-z_$][A-Za-z0-9_$.!#@']*|\|[^|]*\|`)

func symbolsOf(s string, into map[string]bool) {
	for _, m := range symRe.FindAllString(s, -1) {
		into[m] = true
	}
}

// ---------------------------------------------------------------------------------------------
// Queries and solver portfolio

type Decl struct {
	Name string
	Text string   // full declaration command
	Deps []string // names of declarations this one depends on (sorts)
}

type Query struct {
	Name    string   // obligation name
	Decls   []Decl   // in order
	Asserts []Term   // hypotheses
	Goal    Term     // to prove
	Axioms  []string // raw global axiom commands (after declarations)
	NoRetry bool     // no second attempt with a longer budget (obligations expected to fail)
}

type SolverResult struct {
	Status  string // "unsat" (proved), "sat" (refuted), "unknown", "timeout", "error"
	Solver  string
	Seconds float64
	Model   string
	Raw     string
	Sliced  bool
	Retried bool // proved only in the second attempt with four times the budget
}

type solverDef struct {
	name string
	args func(timeoutMs int, file string, seed int) []string
	bin  string
}

var solverDefs = []solverDef{
	{name: "z3-new", bin: "z3-new", args: func(t int, f string, seed int) []string {
		return []string{"-T:" + strconv.Itoa((t+999)/1000), "smt.random_seed=" + strconv.Itoa(seed), f}
	}},
	{name: "z3", bin: "/usr/bin/z3", args: func(t int, f string, seed int) []string {
		return []string{"-T:" + strconv.Itoa((t+999)/1000), "smt.random_seed=" + strconv.Itoa(seed), f}
	}},
	{name: "cvc5", bin: "cvc5", args: func(t int, f string, seed int) []string {
		return []string{"--tlimit=" + strconv.Itoa(t), "--seed=" + strconv.Itoa(seed), "--full-saturate-quant", f}
	}},
}

func (q *Query) text(sliced bool, wantModel bool, qfOnly bool) string {
	var sb strings.Builder
	if wantModel {
		sb.WriteString("(set-option :produce-models true)\n")
	}
	sb.WriteString("(set-logic ALL)\n")
	sb.WriteString(smtPrelude)
	asserts := q.Asserts
	if qfOnly {
		var qf []Term
		for _, a := range asserts {
			if !strings.Contains(a.S, "(forall ") && !strings.Contains(a.S, "(exists ") {
				qf = append(qf, a)
			}
		}
		asserts = qf
	}
	goal := q.Goal
	var keep []bool
	used := map[string]bool{}
	if sliced {
		keep = make([]bool, len(asserts))
		rel := map[string]bool{}
		symbolsOf(goal.S, rel)
		syms := make([]map[string]bool, len(asserts))
		for i, a := range asserts {
			syms[i] = map[string]bool{}
			symbolsOf(a.S, syms[i])
		}
		declared := map[string]bool{}
		for _, d := range q.Decls {
			declared[d.Name] = true
		}
		// hub symbols (mentioned by a large share of the hypotheses, e.g. the receiver) do not propagate relevance
		freq := map[string]int{}
		for i := range asserts {
			for s := range syms[i] {
				freq[s]++
			}
		}
		hubLimit := len(asserts) * 3 / 10
		if hubLimit < 12 {
			hubLimit = 12
		}
		for s, n := range freq {
			if n > hubLimit && !rel[s] {
				delete(declared, s)
			} else if n > hubLimit && strings.HasPrefix(s, "p_") {
				delete(declared, s)
			}
		}
		changed := true
		for changed {
			changed = false
			for i := range asserts {
				if keep[i] {
					continue
				}
				hit := false
				for s := range syms[i] {
					if declared[s] && rel[s] {
						hit = true
						break
					}
				}
				if hit {
					keep[i] = true
					changed = true
					for s := range syms[i] {
						rel[s] = true
					}
				}
			}
		}
		used = rel
	} else {
		symbolsOf(goal.S, used)
		for _, a := range asserts {
			symbolsOf(a.S, used)
		}
	}
	for _, ax := range q.Axioms {
		symbolsOf(ax, used)
	}
	// declarations: only those used (plus dependencies)
	need := map[string]bool{}
	var mark func(name string)
	byName := map[string]*Decl{}
	for i := range q.Decls {
		byName[q.Decls[i].Name] = &q.Decls[i]
	}
	mark = func(name string) {
		if need[name] {
			return
		}
		d := byName[name]
		if d == nil {
			// constructors and selectors of struct datatypes
			if strings.HasPrefix(name, "mk_S_") {
				mark(name[3:])
			} else if i := strings.Index(name, "__"); i > 0 && strings.HasPrefix(name, "S_") {
				mark(name[:i])
			}
			return
		}
		need[name] = true
		for _, dep := range d.Deps {
			mark(dep)
		}
		// declaration text may mention other declared sorts
		m := map[string]bool{}
		symbolsOf(d.Text, m)
		for s := range m {
			if s != name {
				mark(s)
			}
		}
	}
	for s := range used {
		mark(s)
	}
	for _, d := range q.Decls {
		if need[d.Name] {
			sb.WriteString(d.Text)
			sb.WriteByte('\n')
		}
	}
	for _, ax := range q.Axioms {
		sb.WriteString(ax)
		sb.WriteByte('\n')
	}
	for i, a := range asserts {
		if sliced && !keep[i] {
			continue
		}
		sb.WriteString("(assert ")
		sb.WriteString(a.S)
		sb.WriteString(")\n")
	}
	sb.WriteString("(assert (not ")
	sb.WriteString(goal.S)
	sb.WriteString("))\n(check-sat)\n")
	if wantModel {
		sb.WriteString("(get-model)\n")
	}
	return sb.String()
}

var (
	outDir       = "/verif/out"
	solverMu     sync.Mutex
	solverTotals = map[string]*struct {
		N       int
		Seconds float64
	}{}
	queryCounter int
)

func runSolver(def solverDef, file string, timeoutMs int, seed int) (status string, out string, secs float64) {
	ctx, cancel := context.WithTimeout(context.Background(), time.Duration(timeoutMs+2000)*time.Millisecond)
	defer cancel()
	cmd := exec.CommandContext(ctx, def.bin, def.args(timeoutMs, file, seed)...)
	var buf bytes.Buffer
	cmd.Stdout = &buf
	cmd.Stderr = &buf
	t0 := time.Now()
	_ = cmd.Run()
	secs = time.Since(t0).Seconds()
	out = buf.String()
	first := strings.TrimSpace(out)
	if i := strings.IndexByte(first, '\n'); i >= 0 {
		first = strings.TrimSpace(first[:i])
	}
	switch first {
	case "unsat", "sat", "unknown":
		status = first
	case "timeout":
		status = "timeout"
	default:
		if ctx.Err() != nil || strings.Contains(out, "timeout") || strings.Contains(out, "interrupted") {
			status = "timeout"
		} else {
			status = "error"
		}
	}
	return
}

// Discharge runs the portfolio on a query. Proved iff some solver answers unsat. A definite
// "sat" (with model) is only trusted from the unsliced query.
func Discharge(q *Query, timeoutMs int, seed int) SolverResult {
	solverMu.Lock()
	queryCounter++
	id := queryCounter
	solverMu.Unlock()
	base := filepath.Join(smtDir(), fmt.Sprintf("q%06d", id))
	os.MkdirAll(filepath.Dir(base), 0o755)

	qfOnly := false
	try := func(sliced bool, model bool, tmo int, defs []solverDef) SolverResult {
		file := base
		if sliced {
			file += "_s"
		}
		if qfOnly {
			file += "_q"
		}
		if model {
			file += "_m"
		}
		file += ".smt2"
		txt := "; " + q.Name + "\n" + q.text(sliced, model, qfOnly)
		os.WriteFile(file, []byte(txt), 0o644)
		type res struct {
			SolverResult
		}
		ch := make(chan SolverResult, len(defs))
		for _, d := range defs {
			d := d
			go func() {
				st, out, secs := runSolver(d, file, tmo, seed)
				ch <- SolverResult{Status: st, Solver: d.name, Seconds: secs, Raw: out, Sliced: sliced}
			}()
		}
		var best SolverResult
		best.Status = "unknown"
		got := 0
		var all []SolverResult
		for got < len(defs) {
			r := <-ch
			got++
			all = append(all, r)
			solverMu.Lock()
			t := solverTotals[r.Solver]
			if t == nil {
				t = &struct {
					N       int
					Seconds float64
				}{}
				solverTotals[r.Solver] = t
			}
			t.N++
			t.Seconds += r.Seconds
			solverMu.Unlock()
			if r.Status == "unsat" {
				return r // others keep running until their own timeout; acceptable (they are short)
			}
			if r.Status == "sat" && best.Status != "sat" {
				best = r
				if model {
					best.Model = r.Raw
				}
			} else if best.Status != "sat" && (r.Status == "timeout" || r.Status == "unknown") {
				if best.Solver == "" || best.Status == "error" {
					best = r
				}
			} else if best.Solver == "" {
				best = r
			}
		}
		return best
	}

	fast := []solverDef{solverDefs[0]}
	if q.Goal.S == "false" {
		// reachability canary: is the whole path condition contradictory? One short run of the fast solver on the full
		// query; anything but unsat means "not shown unreachable", which is what a canary wants
		r := try(false, false, 2500, fast)
		cleanupQueryFiles(base)
		return r
	}
	// stage 0: quantifier-free hypotheses only, sliced, fast solver (most safety obligations)
	qfOnly = true
	r0 := try(true, false, 2000, fast)
	qfOnly = false
	if r0.Status == "unsat" {
		cleanupQueryFiles(base)
		return r0
	}
	// stage 1: sliced, fast solver only, short timeout
	short := 3000
	if short > timeoutMs {
		short = timeoutMs
	}
	r := try(true, false, short, fast)
	if r.Status == "unsat" {
		cleanupQueryFiles(base)
		return r
	}
	// stage 2: sliced, all solvers (skipped when the sliced query was refuted: more hypotheses are needed)
	if r.Status != "sat" {
		r = try(true, false, timeoutMs, solverDefs)
		if r.Status == "unsat" {
			cleanupQueryFiles(base)
			return r
		}
	}
	// stage 3: full query, all solvers
	r = try(false, false, timeoutMs, solverDefs)
	if r.Status == "unsat" {
		cleanupQueryFiles(base)
		return r
	}
	// stage 4: nobody answered within the budget (timeout / unknown). Wall-clock budgets are sensitive to machine load
	// (other checks, test suites running beside this one): before an obligation is reported as failed it gets one more
	// attempt with four times the budget, sliced first, then full. A refutation (sat) is never retried.
	if r.Status != "sat" && !noRetry && !q.NoRetry && takeRetry() {
		r4 := try(true, false, 4*timeoutMs, solverDefs)
		if r4.Status != "unsat" && r4.Status != "sat" {
			r4 = try(false, false, 4*timeoutMs, solverDefs)
		}
		if r4.Status == "unsat" {
			r4.Retried = true
			cleanupQueryFiles(base)
			return r4
		}
		if r4.Status == "sat" {
			r = r4
		}
	}
	// failed: try to get a model from the full query
	if r.Status != "sat" {
		// nobody refuted it: no model to be had (quantified / recursive obligations answer unknown)
		r.Raw = r.Raw + "\n; query file: " + base + ".smt2"
		return r
	}
	m := try(false, true, timeoutMs, solverDefs[:1])
	if m.Status == "sat" {
		r.Status = "sat"
		r.Model = m.Raw
		r.Solver = m.Solver
	} else if m.Status == "unsat" {
		cleanupQueryFiles(base)
		return m
	}
	r.Raw = r.Raw + "\n; query file: " + base + ".smt2"
	return r
}

func cleanupQueryFiles(base string) {
	if keepSMT {
		return
	}
	m, _ := filepath.Glob(base + "*.smt2")
	for _, f := range m {
		os.Remove(f)
	}
}

// smtDir: the scratch directory of THIS process for query files. Several checks may run at the same time over the same
// /verif/out (the harness, parallel detection runs): with a shared directory and per-process counters two processes wrote
// the same q000123.smt2 and read each other's queries - spurious `sat` answers and "discharged" canaries.
func smtDir() string {
	return filepath.Join(outDir, "smt", fmt.Sprintf("p%d", os.Getpid()))
}

var keepSMT = false

// noRetry disables stage 4 of Discharge (debugging)
var noRetry = false

// retriesLeft: second attempts per run. A load glitch leaves a handful of obligations unanswered; a change that really breaks
// the code can leave dozens (one per path) - those are not worth minutes of extra solver time each.
var retriesLeft = 10

func takeRetry() bool {
	solverMu.Lock()
	defer solverMu.Unlock()
	if retriesLeft <= 0 {
		return false
	}
	retriesLeft--
	return true
}

// parseModel extracts (define-fun name () Sort value) entries with simple values.
func parseModel(raw string) map[string]string {
	res := map[string]string{}
	// crude s-expression scan
	i := strings.Index(raw, "(")
	if i < 0 {
		return res
	}
	toks := tokenizeSexp(raw[i:])
	pos := 0
	var parse func() interface{}
	parse = func() interface{} {
		if pos >= len(toks) {
			return nil
		}
		t := toks[pos]
		pos++
		if t == "(" {
			var list []interface{}
			for pos < len(toks) && toks[pos] != ")" {
				list = append(list, parse())
			}
			pos++
			return list
		}
		return t
	}
	for pos < len(toks) {
		e := parse()
		collectDefs(e, res)
	}
	return res
}

func collectDefs(e interface{}, res map[string]string) {
	l, ok := e.([]interface{})
	if !ok {
		return
	}
	if len(l) >= 5 {
		if h, ok := l[0].(string); ok && h == "define-fun" {
			name, _ := l[1].(string)
			if args, ok := l[2].([]interface{}); ok && len(args) == 0 {
				res[name] = sexpString(l[4])
			}
			return
		}
	}
	for _, x := range l {
		collectDefs(x, res)
	}
}

func sexpString(e interface{}) string {
	switch v := e.(type) {
	case string:
		return v
	case []interface{}:
		parts := make([]string, len(v))
		for i, x := range v {
			parts[i] = sexpString(x)
		}
		return "(" + strings.Join(parts, " ") + ")"
	}
	return ""
}

func tokenizeSexp(s string) []string {
	var toks []string
	i := 0
	for i < len(s) {
		c := s[i]
		switch {
		case c == '(' || c == ')':
			toks = append(toks, string(c))
			i++
		case c == ' ' || c == '\n' || c == '\t' || c == '\r':
			i++
		case c == '|':
			j := strings.IndexByte(s[i+1:], '|')
			if j < 0 {
				j = len(s) - i - 2
			}
			toks = append(toks, s[i:i+j+2])
			i += j + 2
		case c == '"':
			j := i + 1
			for j < len(s) && s[j] != '"' {
				j++
			}
			toks = append(toks, s[i:j+1])
			i = j + 1
		case c == ';':
			for i < len(s) && s[i] != '\n' {
				i++
			}
		default:
			j := i
			for j < len(s) && !strings.ContainsRune("() \n\t\r", rune(s[j])) {
				j++
			}
			toks = append(toks, s[i:j])
			i = j
		}
	}
	return toks
}

func sortedKeys[V any](m map[string]V) []string {
	ks := make([]string, 0, len(m))
	for k := range m {
		ks = append(ks, k)
	}
	sort.Strings(ks)
	return ks
}

// splitArgs splits the arguments of an application "(op a b c)" at top level.
func splitArgs(s string, op string) ([]string, bool) {
	if !strings.HasPrefix(s, "("+op+" ") || !strings.HasSuffix(s, ")") {
		return nil, false
	}
	body := s[len(op)+2 : len(s)-1]
	var out []string
	depth := 0
	start := 0
	inBar := false
	for j := 0; j <= len(body); j++ {
		if j == len(body) || (body[j] == ' ' && depth == 0 && !inBar) {
			if j > start {
				out = append(out, body[start:j])
			}
			start = j + 1
			continue
		}
		switch body[j] {
		case '(':
			depth++
		case ')':
			depth--
		case '|':
			inBar = !inBar
		}
	}
	return out, true
}
