package main

// Calls: builtins, inlining, contract application, unmodelled externals; loop havoc; frame checks.

import (
	"fmt"
	"regexp"
	"go/token"
	"go/types"
	"sort"
	"strings"

	"golang.org/x/tools/go/ssa"
)

const maxInlineDepth = 10

func (st *State) evalCallOperands(c *ssa.CallCommon) (Value, []Value) {
	var args []Value
	fnv := st.val(c.Value)
	for _, a := range c.Args {
		args = append(args, st.val(a))
	}
	return fnv, args
}

func (st *State) finishCall(instr *ssa.Call, res Value, deferred bool) bool {
	if deferred {
		return false // RunDefers is re-executed
	}
	if instr != nil {
		st.frame.regs[instr] = res
	}
	st.frame.idx++
	return false
}

func resultValue(T types.Type, res []Value) Value {
	switch len(res) {
	case 0:
		return Value{T: T}
	case 1:
		return res[0]
	}
	return Value{T: T, Tup: res}
}

func (st *State) doCall(instr *ssa.Call, c *ssa.CallCommon, fnv Value, args []Value, pos token.Pos, deferred bool) bool {
	e := st.eng()
	var resT types.Type
	if instr != nil {
		resT = instr.Type()
	} else {
		resT = c.Signature().Results()
	}
	// builtins
	if b, ok := c.Value.(*ssa.Builtin); ok {
		r := st.builtin(b, c, args, pos, resT)
		return st.finishCall(instr, r, deferred)
	}
	sig := c.Signature()
	if c.IsInvoke() {
		// interface method call
		recv := fnv
		key := ifaceMethodKey(c)
		st.check("nil", st.textAt(pos, "invoke "+c.Method.Name()), pos, Ne(IfType(recv.Tm), IntLit(0)))
		st.beforeAsserts(key, append([]Value{recv}, args...), pos)
		if spec := e.specs.Funcs[key]; spec != nil {
			spec.Used = true
			e.trusted[key+" (interface contract)"] = true
			if spec.Flags["counted"] != "" {
				st.bumpCounter("NC_" + sanitize(key)) // ncalls("pkg.Iface.Method") counts invocations through the interface
			}
			r := st.applySpec(spec, sig, append([]Value{recv}, args...), pos, key, nil)
			return st.finishCall(instr, r, deferred)
		}
		r := st.unmodelled(key, sig, append([]Value{recv}, args...), resT)
		return st.finishCall(instr, r, deferred)
	}
	// static or closure call
	var callee *ssa.Function
	var bindings []Value
	if fnv.Clo != nil {
		callee = fnv.Clo.Fn
		bindings = fnv.Clo.Bindings
	}
	if callee == nil {
		// dynamic call through a func value
		key := fnv.Origin
		if key == "" || e.specs.Funcs[key] == nil {
			if n, ok := types.Unalias(c.Value.Type()).(*types.Named); ok && n.Obj().Pkg() != nil {
				if k2 := n.Obj().Pkg().Name() + "." + n.Obj().Name(); e.specs.Funcs[k2] != nil || key == "" {
					key = k2
				}
			}
		}
		if key == "" {
			key = "funcvalue:" + c.Value.Name()
		}
		if e.specs.Funcs[key] == nil {
			if clo := st.resolveClosure(fnv); clo != nil {
				fnv.Clo = clo
				return st.doCall(instr, c, fnv, args, pos, deferred)
			}
		}
		if !fnv.Tm.IsZero() {
			st.check("nil", st.textAt(pos, "call of func value"), pos, Ne(fnv.Tm, IntLit(0)))
		}
		st.countCall(key, fnv, c)
		st.beforeAsserts(key, args, pos)
		if spec := e.specs.Funcs[key]; spec != nil {
			spec.Used = true
			e.trusted[key+" (fnspec)"] = true
			st.selfVal = &Value{T: types.Typ[types.Int], Tm: fnv.Tm}
			if fnv.Tm.IsZero() {
				st.selfVal = nil
			}
			r := st.applySpec(spec, sig, args, pos, key, nil)
			st.selfVal = nil
			return st.finishCall(instr, r, deferred)
		}
		r := st.unmodelled(key, sig, args, resT)
		return st.finishCall(instr, r, deferred)
	}
	key := e.ld.keyOf[callee]
	if key == "" {
		key = FuncKey(callee)
	}
	// intrinsics
	if r, ok := st.intrinsic(key, callee, args, pos, resT); ok {
		if r.Origin == "abort" {
			return true
		}
		return st.finishCall(instr, r, deferred)
	}
	st.beforeAsserts(key, args, pos)
	spec := e.specs.Funcs[key]
	// a contract specific to the struct field the receiver was loaded from
	if len(args) > 0 && args[0].Origin != "" && callee.Signature.Recv() != nil {
		if fsx := e.specs.Funcs[args[0].Origin+"."+callee.Name()]; fsx != nil {
			spec = fsx
			key = args[0].Origin + "." + callee.Name()
		}
	}
	hasBody := callee.Blocks != nil
	if spec != nil && spec.Flags["trusted"] != "" {
		e.trusted[key+" (trusted contract on a repository function: used at call sites, not verified)"] = true
	}
	useContract := spec != nil && (len(spec.Requires) > 0 || len(spec.Ensures) > 0 || spec.HasMod || spec.Extern || spec.Flags["contract"] != "") && spec.Flags["inline"] == ""
	if useContract {
		spec.Used = true
		if spec.Extern || !hasBody {
			e.trusted[key+" (external contract)"] = true
		}
		if spec.Flags["counted"] != "" {
			st.bumpCounter("NC_" + sanitize(key))
		}
		r := st.applySpec(spec, sig, args, pos, key, callee)
		return st.finishCall(instr, r, deferred)
	}
	if hasBody && st.u.abstract[key] {
		r := st.unmodelled(key+" (repository helper outside the subset, abstracted)", sig, args, resT)
		return st.finishCall(instr, r, deferred)
	}
	if hasBody {
		// inline
		depth := st.frame.depth + 1
		rec := false
		for f := st.frame; f != nil; f = f.parent {
			if f.fn == callee {
				rec = true
			}
		}
		if depth > maxInlineDepth || rec {
			panic(engineErr("cannot inline %s (depth %d, recursive=%v): needs a contract", key, depth, rec))
		}
		e.inlined[key] = true
		nf := &Frame{fn: callee, regs: map[ssa.Value]Value{}, cells: map[*ssa.Alloc]*Cell{}, loopsSeen: map[*ssa.BasicBlock]*loopEntry{},
			params: map[string]Value{}, parent: st.frame, depth: depth, spec: spec, inDefer: deferred}
		if instr != nil {
			nf.callInstr = instr
		} else {
			nf.callInstr = st.frame.block.Instrs[st.frame.idx]
		}
		if len(args) != len(callee.Params) {
			panic(engineErr("inline %s: %d args for %d params", key, len(args), len(callee.Params)))
		}
		for i, p := range callee.Params {
			nf.regs[p] = args[i]
			nf.params[p.Name()] = args[i]
		}
		if len(callee.FreeVars) > 0 {
			nf.freeVars = map[*ssa.FreeVar]Value{}
			for i, fv := range callee.FreeVars {
				if i < len(bindings) {
					nf.freeVars[fv] = bindings[i]
				}
			}
		}
		nf.block = callee.Blocks[0]
		st.frame = nf
		return false
	}
	// external without contract
	r := st.unmodelled(key, sig, args, resT)
	return st.finishCall(instr, r, deferred)
}

// beforeAsserts proves the caller-side assertions attached to calls of `key` (static callee, interface method or func type)
func (st *State) beforeAsserts(key string, args []Value, pos token.Pos) {
	// caller-side assertions attached to calls of this callee ("before <callee>: assert e"), top-level frame only
	// (also inside an inlined helper that has no contract of its own: the call was moved there; names resolve in the helper)
	e := st.eng()
	if fr := st.frame; st.u.spec != nil && st.u.spec.Before != nil && (fr.parent == nil || fr.spec == nil) {
		if cs := st.u.spec.Before[key]; len(cs) > 0 {
			if st.u.beforeHit == nil {
				st.u.beforeHit = map[string]bool{}
			}
			st.u.beforeHit[key] = true
			for _, bc := range cs {
				env := st.newEnv(fr, nil)
				for ai := range args {
					env.vars[fmt.Sprintf("arg%d", ai)] = args[ai] // the call's arguments (receiver first)
				}
				// inside a loop with step clauses, prev(e) is the value at the start of the current round of the
				// innermost such loop around the call
				best := 0
				for hdr, li := range e.loopsOf(fr.fn) {
					if le := fr.loopsSeen[hdr]; le != nil && le.head != nil && li.body[fr.block] && (best == 0 || len(li.body) < best) {
						best = len(li.body)
						env.prev = le.head
						env.lentry = le.entry
					}
				}
				t := env.evalBool(bc.E)
				st.assumeAll(env.defs)
				st.u.addObl(st, "assert", "before "+key+"/"+clauseName(bc), pos, t, false)
				st.assume(t)
			}
		}
	}
}

func ifaceMethodKey(c *ssa.CallCommon) string {
	T := types.Unalias(c.Value.Type())
	if n, ok := T.(*types.Named); ok {
		pk := ""
		if n.Obj().Pkg() != nil {
			pk = n.Obj().Pkg().Name() + "."
		}
		return pk + n.Obj().Name() + "." + c.Method.Name()
	}
	return "iface." + c.Method.Name()
}

func (st *State) bumpCounter(name string) {
	cur := st.heapGet(name, SInt)
	st.heapSet(name, SInt, Add(cur, IntLit(1)))
}

func (st *State) countCall(key string, fnv Value, c *ssa.CallCommon) {
	// calls through func-typed struct fields are counted per object: NCF_<key>[obj]
	if fnv.Origin == "" {
		return
	}
	// find the object the func value was loaded from
	if u, ok := c.Value.(*ssa.UnOp); ok {
		if fa, ok := u.X.(*ssa.FieldAddr); ok {
			base := st.val(fa.X)
			if t, ok := st.tryPtrTerm(base); ok {
				name := "NCF_" + sanitize(key)
				sort := ArraySort(SInt, SInt)
				h := st.heapGet(name, sort)
				st.heapSet(name, sort, Store(h, t, Add(Select(h, t), IntLit(1))))
			}
		}
	}
}

// ---------------------------------------------------------------------------------------------
// builtins

func (st *State) builtin(b *ssa.Builtin, c *ssa.CallCommon, args []Value, pos token.Pos, resT types.Type) Value {
	e := st.eng()
	I := types.Typ[types.Int]
	switch b.Name() {
	case "len":
		return Value{T: I, Tm: st.lenOf(args[0])}
	case "cap":
		if isSlice(args[0].T) {
			return Value{T: I, Tm: SlCap(args[0].Tm)}
		}
		return Value{T: I, Tm: st.lenOf(args[0])}
	case "append":
		return st.appendOp(args[0], args[1], pos)
	case "copy":
		return st.copyOp(args[0], args[1], pos)
	case "delete":
		st.mapDelete(args[0], args[1])
		return Value{}
	case "clear":
		// clear(slice): "sets all elements up to the length of s to the zero value of T" (maps: not modelled)
		if !isSlice(args[0].T) {
			panic(engineErr("unsupported builtin clear on %s", args[0].T))
		}
		st.clearOp(args[0], pos)
		return Value{}
	case "close":
		st.chanClose(args[0], pos)
		return Value{}
	case "min", "max":
		r := args[0].Tm
		for _, a := range args[1:] {
			if b.Name() == "min" {
				r = Ite(Le(r, a.Tm), r, a.Tm)
			} else {
				r = Ite(Ge(r, a.Tm), r, a.Tm)
			}
		}
		return Value{T: args[0].T, Tm: r}
	case "print", "println":
		return Value{}
	case "ssa:wrapnilchk":
		return args[0]
	case "String": // unsafe.String(ptr, len)
		panic(engineErr("unsafe.String outside of the known helpers"))
	}
	_ = e
	panic(engineErr("unsupported builtin %s", b.Name()))
}

func (st *State) appendOp(s Value, t Value, pos token.Pos) Value {
	e := st.eng()
	el := elemOf(s.T)
	name, sort := e.memName(el)
	m := st.heapGet(name, sort)
	// number of appended elements and their source
	var n Term
	var srcArr, srcOff Term
	if isString(t.T) {
		n = StrLen(t.Tm)
		srcArr, srcOff = StrArr(t.Tm), StrOff(t.Tm)
	} else {
		n = SlLen(t.Tm)
		srcArr, srcOff = Select(m, SlRef(t.Tm)), SlOff(t.Tm)
	}
	ln, cp, off, ref := SlLen(s.Tm), SlCap(s.Tm), SlOff(s.Tm), SlRef(s.Tm)
	newLen := Add(ln, n)
	fits := Le(newLen, cp)
	// destination array after the append (same offsets in both cases)
	dst := e.fresh("app", ArraySort(SInt, e.sortOf(el)))
	i := Term{"i!q", SInt}
	base := Select(m, ref)
	if k, ok := isIntLit(n); ok && k >= 0 && k <= 4 {
		a := base
		for j := int64(0); j < k; j++ {
			a = Store(a, Add(Add(off, ln), IntLit(j)), Select(srcArr, Add(srcOff, IntLit(j))))
		}
		st.assume(Eq(dst, a))
	} else {
		st.assume(Forall([]Term{i}, Ite(And(Le(Add(off, ln), i), Lt(i, Add(off, newLen))),
			Eq(Select(dst, i), Select(srcArr, Ix(srcOff, Sub(i, Add(off, ln))))),
			Eq(Select(dst, i), Select(base, i)))))
	}
	newRef := e.fresh("ref", SInt)
	st.assume(Gt(newRef, st.alloc))
	na := e.fresh("alloc", SInt)
	st.assume(Eq(na, newRef))
	st.alloc = na
	rref := Ite(fits, ref, newRef)
	newCap := e.fresh("cap", SInt)
	st.assume(Ge(newCap, newLen))
	rcap := Ite(fits, cp, newCap)
	st.heapSet(name, sort, Store(m, rref, dst))
	return Value{T: s.T, Tm: MkSlice(rref, off, newLen, rcap)}
}

func (st *State) copyOp(dst Value, src Value, pos token.Pos) Value {
	e := st.eng()
	el := elemOf(dst.T)
	name, sort := e.memName(el)
	m := st.heapGet(name, sort)
	var sl, srcArr, srcOff Term
	if isString(src.T) {
		sl = StrLen(src.Tm)
		srcArr, srcOff = StrArr(src.Tm), StrOff(src.Tm)
	} else {
		sl = SlLen(src.Tm)
		srcArr, srcOff = Select(m, SlRef(src.Tm)), SlOff(src.Tm)
	}
	dl, doff, dref := SlLen(dst.Tm), SlOff(dst.Tm), SlRef(dst.Tm)
	n := e.fresh("ncopy", SInt)
	st.assume(Eq(n, Ite(Le(dl, sl), dl, sl)))
	st.writableCheck(dref, pos, "copy")
	na := e.fresh("cpy", ArraySort(SInt, e.sortOf(el)))
	i := Term{"i!q", SInt}
	base := Select(m, dref)
	st.assume(Forall([]Term{i}, Ite(And(Le(doff, i), Lt(i, Add(doff, n))),
		Eq(Select(na, i), Select(srcArr, Add(srcOff, Sub(i, doff)))),
		Eq(Select(na, i), Select(base, i)))))
	st.heapSet(name, sort, Store(m, dref, na))
	return Value{T: types.Typ[types.Int], Tm: n}
}

func (st *State) clearOp(dst Value, pos token.Pos) {
	e := st.eng()
	el := elemOf(dst.T)
	name, sort := e.memName(el)
	m := st.heapGet(name, sort)
	dl, doff, dref := SlLen(dst.Tm), SlOff(dst.Tm), SlRef(dst.Tm)
	st.writableCheck(dref, pos, "clear")
	na := e.fresh("clr", ArraySort(SInt, e.sortOf(el)))
	i := Term{"i!q", SInt}
	base := Select(m, dref)
	st.assume(Forall([]Term{i}, Ite(And(Le(doff, i), Lt(i, Add(doff, dl))),
		Eq(Select(na, i), e.zeroOf(el)),
		Eq(Select(na, i), Select(base, i)))))
	st.heapSet(name, sort, Store(m, dref, na))
}

// writableCheck: a store through a slice that may alias read-only string memory
func (st *State) writableCheck(ref Term, pos token.Pos, what string) {
	if !st.written["RO"] {
		return
	}
	ro := st.heapGet("RO", ArraySort(SInt, SBool))
	st.check("writable", st.textAt(pos, what), pos, Not(Select(ro, ref)))
}

// ---------------------------------------------------------------------------------------------
// intrinsics: functions of the repo / dependencies with built-in semantics

func (st *State) intrinsic(key string, callee *ssa.Function, args []Value, pos token.Pos, resT types.Type) (Value, bool) {
	e := st.eng()
	pkgPath := ""
	if callee.Pkg != nil {
		pkgPath = callee.Pkg.Pkg.Path()
	} else if callee.Object() != nil && callee.Object().Pkg() != nil {
		pkgPath = callee.Object().Pkg().Path()
	}
	switch key {
	case "util.StringFromBytes":
		// zero-copy view: snapshot of the bytes; writable (own=1)
		b := args[0]
		name, sort := e.memName(types.Typ[types.Uint8])
		m := st.heapGet(name, sort)
		e.assumes["util.StringFromBytes/BytesFromString (unsafe): modelled as a snapshot copy plus a writable flag; later writes through the shared memory are not reflected in the string"] = true
		// own: 1 = view of memory that existed before this call (shared with whoever holds it), 2 = view of memory
		// allocated during this call (a private copy unless the function leaks the slice - not tracked)
		own := IntLit(1)
		if st.entry != nil {
			own = Ite(Gt(SlRef(b.Tm), st.entry.alloc), IntLit(2), IntLit(1))
		}
		return Value{T: resT, Tm: MkStr4(Select(m, SlRef(b.Tm)), SlOff(b.Tm), SlLen(b.Tm), own)}, true
	case "binary.littleEndian.AppendUint64":
		// append(b, byte(v), byte(v>>8), ... byte(v>>56)): eight fresh bytes whose little-endian value is v
		if pkgPath != "encoding/binary" {
			break
		}
		b, v := args[len(args)-2], args[len(args)-1]
		arr := e.fresh("le64", ArraySort(SInt, SInt))
		sum := Term{}
		w := int64(1)
		var cs []Term
		for j := int64(0); j < 8; j++ {
			bj := Select(arr, IntLit(j))
			cs = append(cs, Le(IntLit(0), bj), Le(bj, IntLit(255)))
			t := bj
			if j > 0 {
				t = Mul(IntLit(w), bj)
			}
			if j == 0 {
				sum = t
			} else {
				sum = Add(sum, t)
			}
			if j < 7 {
				w *= 256
			}
		}
		cs = append(cs, Eq(v.Tm, sum))
		st.assume(And(cs...))
		e.assumes["encoding/binary LittleEndian.AppendUint64: built-in semantics (appends the eight bytes b0..b7 with v == sum b_j*256^j)"] = true
		return st.appendOp(b, Value{T: types.Typ[types.String], Tm: MkStr4(arr, IntLit(0), IntLit(8), IntLit(0))}, pos), true
	case "util.BytesFromString":
		s := args[0]
		ref := st.newRef()
		name, sort := e.memName(types.Typ[types.Uint8])
		m := st.heapGet(name, sort)
		st.heapSet(name, sort, Store(m, ref, StrArr(s.Tm)))
		roS := ArraySort(SInt, SBool)
		ro := st.heapGet("RO", roS)
		st.heapSet("RO", roS, Store(ro, ref, Eq(StrOwn(s.Tm), IntLit(0))))
		e.assumes["util.StringFromBytes/BytesFromString (unsafe): modelled as a snapshot copy plus a writable flag; later writes through the shared memory are not reflected in the string"] = true
		return Value{T: resT, Tm: MkSlice(ref, StrOff(s.Tm), StrLen(s.Tm), StrLen(s.Tm))}, true
	}
	if pkgPath == "github.com/relex/gotils/logger" {
		name := callee.Name()
		if strings.HasPrefix(name, "Panic") || strings.HasPrefix(name, "Fatal") {
			st.check("panic", "logger."+name+": "+st.textAt(pos, name), pos, TFalse)
			return Value{Origin: "abort"}, true
		}
		// logging has no effect on modelled state
		if tup, ok := resT.(*types.Tuple); ok && tup.Len() == 0 {
			return Value{}, true
		}
		return st.symbolicValue("log", resT), true
	}
	return Value{}, false
}

// ---------------------------------------------------------------------------------------------
// unmodelled external call: results are arbitrary; memory reachable from slice and pointer
// arguments (one level) is havocked.

func (st *State) unmodelled(key string, sig *types.Signature, args []Value, resT types.Type) Value {
	e := st.eng()
	e.unmod[key] = true
	for _, a := range args {
		if a.T == nil || a.Tm.IsZero() {
			continue
		}
		switch t := types.Unalias(a.T).Underlying().(type) {
		case *types.Slice:
			name, sort := e.memName(t.Elem())
			m := st.heapGet(name, sort)
			_, es := splitArraySort(sort)
			st.heapSet(name, sort, Store(m, SlRef(a.Tm), e.fresh("hav", es)))
		case *types.Pointer:
			st.havocPointee(t.Elem(), a.Tm)
		case *types.Interface:
			// an interface wrapping a pointer (e.g. Unmarshal(data, &conf)): the pointee is written by the callee
			if id, ok := isIntLit(IfType(a.Tm)); ok {
				if DT := e.typeByID[int(id)]; DT != nil {
					if pt, ok := types.Unalias(DT).Underlying().(*types.Pointer); ok {
						st.havocPointee(pt.Elem(), IfVal(a.Tm))
					}
				}
			} else if a.Tm.S != nilIface.S {
				e.assumes["unmodelled calls that receive an interface value of unknown dynamic type are assumed not to write memory the verified code reads"] = true
			}
		}
	}
	if tup, ok := resT.(*types.Tuple); ok && tup.Len() == 0 {
		return Value{}
	}
	return st.symbolicValue("ext_"+shortKey(key), resT)
}

// havocPointee: an unmodelled callee may write the object a pointer argument designates (one level)
func (st *State) havocPointee(T types.Type, ref Term) {
	e := st.eng()
	if stt, ok := types.Unalias(T).Underlying().(*types.Struct); ok {
		for i := 0; i < stt.NumFields(); i++ {
			name, sort := e.fieldHeapName(T, i)
			h := st.heapGet(name, sort)
			_, fs := splitArraySort(sort)
			nv := e.fresh("hav", fs)
			st.assume(e.typeInv(stt.Field(i).Type(), nv))
			st.heapSet(name, sort, Store(h, ref, nv))
		}
		return
	}
	if _, isArr := types.Unalias(T).Underlying().(*types.Array); isArr {
		return
	}
	name, sort := e.boxName(T)
	h := st.heapGet(name, sort)
	_, fs := splitArraySort(sort)
	nv := e.fresh("hav", fs)
	st.assume(e.typeInv(T, nv))
	st.heapSet(name, sort, Store(h, ref, nv))
}

// ---------------------------------------------------------------------------------------------
// contract application at a call site

func (st *State) specPkg(spec *FuncSpec) *types.Package {
	if p, ok := st.eng().ld.pkgByNm[spec.PkgName]; ok {
		return p.Types
	}
	for _, tp := range st.eng().ld.allTypesPkgs() {
		if tp.Name() == spec.PkgName {
			return tp
		}
	}
	return nil
}

func (st *State) applySpec(spec *FuncSpec, sig *types.Signature, args []Value, pos token.Pos, calleeName string, callee *ssa.Function) Value {
	e := st.eng()
	names := spec.ParamNames
	if callee != nil && len(names) != len(args) {
		names = nil
		for _, p := range callee.Params {
			names = append(names, p.Name())
		}
	}
	if len(names) != len(args) {
		panic(engineErr("contract %s: %d parameter names for %d arguments", spec.Key, len(names), len(args)))
	}
	// closures passed as arguments: the contract sees their (non-nil) identity term
	for i := range args {
		if args[i].Clo != nil && args[i].Tm.IsZero() {
			args[i].Tm = st.closureTerm(args[i])
		}
	}
	pre := st.clone()
	pre.entry = nil
	mkEnv := func(cur *State) *Env {
		env := &Env{st: cur, old: pre, vars: map[string]Value{}, callee: spec, pkg: st.specPkg(spec)}
		for i, n := range names {
			env.vars[n] = args[i]
		}
		if st.selfVal != nil {
			env.vars["self"] = *st.selfVal
		}
		env.resNames = spec.ResNames
		return env
	}
	short := shortKey(calleeName)
	for _, c := range spec.Requires {
		env := mkEnv(st)
		t := env.evalBool(c.E)
		st.assumeAll(env.defs)
		st.check("pre@callsite", short+"/"+clauseName(c), pos, t)
	}
	// writable obligations for slice arguments when read-only memory is in play
	if st.written["RO"] && spec.Flags["readonly"] == "" {
		for i, a := range args {
			if a.T != nil && isSlice(a.T) && !a.Tm.IsZero() {
				st.writableCheck(SlRef(a.Tm), pos, short+" argument "+names[i])
			}
		}
	}
	// havoc the frame
	for _, m := range spec.Modifies {
		env := mkEnv(pre)
		st.havocLocation(env, m)
	}
	// the callee may allocate: the watermark grows (isfresh(result) means above the pre-call watermark)
	{
		na := e.fresh("alloc", SInt)
		st.assume(Ge(na, st.alloc))
		st.alloc = na
	}
	// results
	var res []Value
	rs := sig.Results()
	for i := 0; i < rs.Len(); i++ {
		res = append(res, st.symbolicValue("r_"+short, rs.At(i).Type()))
	}
	// channel counters are exempt from modifies clauses (and from the callee's frame check): a callee whose body
	// (transitively, through static calls) contains channel operations may have changed them
	// scratch ghost variables are arbitrary after any contract call (the writer's own postcondition then says what it left)
	{
		var sn []string
		for n := range e.scratchHeaps() {
			sn = append(sn, n)
		}
		sort.Strings(sn)
		for _, n := range sn {
			st.heapHavoc(n, e.scratchSorts[n])
		}
	}
	// ghost assignments of the callee's contract (trusted for external callees)
	for _, gs := range spec.GhostSets {
		if !spec.Extern {
			break // ghost assignments of verified functions speak about their locals; callers rely on ensures
		}
		env := mkEnv(pre)
		env.res = res
		st.ghostAssign(env, gs[0], gs[1])
		st.assumeAll(env.defs)
	}
	if callee != nil {
		names := map[string]bool{}
		e.chanCounters(callee, 0, names, map[*ssa.Function]bool{})
		var ns []string
		for n := range names {
			ns = append(ns, n)
		}
		sort.Strings(ns)
		for _, n := range ns {
			st.heapHavoc(n, ArraySort(SInt, SInt))
		}
	}
	for _, c := range spec.Ensures {
		if strings.HasPrefix(c.Label, "!") {
			continue // private clause: proved for the function, not exported to callers (keeps their context small)
		}
		env := mkEnv(st)
		env.res = res
		t := env.evalBool(c.E)
		st.assumeAll(env.defs)
		st.assume(t)
	}
	// crash obligations: the unit's crash invariant must hold right after every external (syscall) step
	if us := st.u.spec; us != nil && len(us.CrashInvs) > 0 && spec.Extern && st.frame.parent == nil && st.u.houdini == nil {
		for _, c := range us.CrashInvs {
			env := st.newEnv(st.frame, nil)
			env.post = true
			t := env.evalBool(c.E)
			st.assumeAll(env.defs)
			st.u.addObl(st, "crash", "after "+short+"/"+clauseName(c), pos, t, false)
		}
	}
	// vacuity guard: the assumed postconditions must not contradict the call context
	if u := st.u; u.houdini == nil {
		ck := spec.Key
		if u.vacChecked == nil {
			u.vacChecked = map[string]bool{}
		}
		if !u.vacChecked[ck] || e.tier == "thorough" {
			u.vacChecked[ck] = true
			if e.multiQueryRaw(st.pcSlice(), []Term{TFalse})[0] {
				if !e.multiQueryRaw(pre.pcSlice(), []Term{TFalse})[0] {
					u.errs = append(u.errs, fmt.Sprintf("vacuity: the postconditions assumed for %s contradict the call context at %s", spec.Key, e.ld.posText(pos)))
				}
			}
		}
	}
	return resultValue(rs, res)
}

// havocLocation havocs the location denoted by a modifies entry. env.st is the pre-state used to
// evaluate the expression; the havoc is applied to st.
func (st *State) havocLocation(env *Env, m *Expr) {
	e := st.eng()
	if mv, mt := env.tryMapExpr(m); mt != nil {
		hn := e.mapHeapNames(mt)
		for _, h := range hn {
			cur := st.heapGet(h.name, h.sort)
			_, es := splitArraySort(h.sort)
			nv := e.fresh("hav", es)
			if strings.HasPrefix(h.name, "ML_") {
				st.assume(Ge(nv, IntLit(0)))
			}
			st.heapSet(h.name, h.sort, Store(cur, mv.Tm, nv))
		}
		return
	}
	if hn, sort, T, ok := e.pkgQualifiedHeap(m); ok && st.isPkgName(env, m.Args[0].Op) {
		nt := st.heapHavoc(hn, sort)
		st.assume(e.typeInv(T, nt))
		return
	}
	if hn, sort, idx, ok := env.ghostArrayElem(m); ok {
		cur := st.heapGet(hn, sort)
		_, es := splitArraySort(sort)
		st.heapSet(hn, sort, Store(cur, idx, e.fresh("hav", es)))
		return
	}
	switch m.Kind {
	case EIdent:
		if m.Op == "everything" {
			if env.callee != nil {
				ex := e.preservedNames(env.callee)
				// ghost variables are changed only by contracts: a callee cannot reach those of packages its own package
				// does not import (callbacks into such packages are not tracked - recorded as an assumption)
				if cp, ok := e.ld.pkgByNm[env.callee.PkgName]; ok && cp.Types != nil {
					reach := reachablePkgs(cp.Types)
					for _, gd := range e.specs.Ghosts {
						if gd.IsField || gd.PkgName == "prelude" || reach[gd.PkgName] {
							continue
						}
						if ex == nil {
							ex = map[string]bool{}
						}
						hn := "GH_" + sanitize(gd.PkgName+"_"+gd.Name)
						ex[hn] = true
						if _, known := e.heapSorts[hn]; !known {
							e.heapSorts[hn] = e.sortOf(e.resolveType(gd.Type, gd.PkgName))
						}
						e.assumes["`modifies everything` of a callee does not include ghost variables of packages the callee's package does not import"] = true
					}
				}
				st.havocAllExcept(ex)
			} else {
				st.havocAll()
			}
			return
		}
		// ghost variable or global
		if g := env.ghostVar(m.Op); g != nil {
			pk := ""
			if env.callee != nil {
				pk = env.callee.PkgName
			} else if env.pkg != nil {
				pk = env.pkg.Name()
			}
			gd := e.specs.Ghosts[pk+"."+m.Op]
			if gd == nil {
				gd = e.specs.Ghosts["prelude."+m.Op]
			}
			hn := "GH_" + sanitize(gd.PkgName+"_"+gd.Name)
			st.heapHavoc(hn, g.Tm.Sort)
			return
		}
		if env.pkg != nil {
			if obj, ok := env.pkg.Scope().Lookup(m.Op).(*types.Var); ok {
				hn := "G_" + sanitize(obj.Pkg().Name()+"_"+obj.Name())
				nt := st.heapHavoc(hn, e.sortOf(obj.Type()))
				st.assume(e.typeInv(obj.Type(), nt))
				return
			}
		}
	case ECall:
		if m.Args[0].Kind == EIdent && m.Args[0].Op == "ncalls" {
			v := env.ncalls(m.Args[1])
			_ = v
			if m.Args[1].Kind == EStr {
				k := strings.Trim(m.Args[1].Op, "\"")
				st.heapHavoc("NC_"+sanitize(k), SInt)
				return
			}
		}
		if m.Args[0].Kind == EIdent && m.Args[0].Op == "mem" {
			T := env.resolveType(m.Args[1].String())
			name, sort := e.memName(T)
			st.heapHavoc(name, sort)
			return
		}
	case ESel:
		// x.f / x.* / T.f
		baseE := m.Args[0]
		{
			if T := st.typeOfExpr(env, baseE); T != nil {
				// whole heap variable of a field
				if stt, ok := types.Unalias(T).Underlying().(*types.Struct); ok {
					for i := 0; i < stt.NumFields(); i++ {
						if stt.Field(i).Name() == m.Op || m.Op == "*" {
							name, sort := e.fieldHeapName(T, i)
							st.heapHavoc(name, sort)
						}
					}
					if gf := env.ghostFieldDecl(T, m.Op); gf != "" {
						st.heapHavoc(gf, env.ghostFieldSort(T, m.Op))
					}
					return
				}
			}
		}
		base := env.eval(baseE)
		pt, ok := types.Unalias(base.T).Underlying().(*types.Pointer)
		if !ok {
			panic(specErr("modifies %s: base is not a pointer", m))
		}
		ref, _ := st.tryPtrTerm(base)
		stt, ok := types.Unalias(pt.Elem()).Underlying().(*types.Struct)
		if !ok {
			panic(specErr("modifies %s: not a struct", m))
		}
		done := false
		for i := 0; i < stt.NumFields(); i++ {
			if stt.Field(i).Name() == m.Op || m.Op == "*" {
				name, sort := e.fieldHeapName(pt.Elem(), i)
				h := st.heapGet(name, sort)
				_, fs := splitArraySort(sort)
				nv := e.fresh("hav", fs)
				st.assume(e.typeInv(stt.Field(i).Type(), nv))
				st.heapSet(name, sort, Store(h, ref, nv))
				done = true
			}
		}
		if !done {
			if gv := env.ghostField(pt.Elem(), m.Op, ref); gv != nil {
				hn := env.ghostFieldDecl(pt.Elem(), m.Op)
				sort := env.ghostFieldSort(pt.Elem(), m.Op)
				h := st.heapGet(hn, sort)
				_, fs := splitArraySort(sort)
				st.heapSet(hn, sort, Store(h, ref, e.fresh("hav", fs)))
				done = true
			}
		}
		if !done {
			panic(specErr("modifies %s: no such field", m))
		}
		return
	case EIndex, ESlice:
		// s[*] is written s[:] ; s[a:b]
		base := env.eval(m.Args[0])
		if !isSlice(base.T) {
			panic(specErr("modifies %s: not a slice", m))
		}
		el := elemOf(base.T)
		name, sort := e.memName(el)
		mm := st.heapGet(name, sort)
		_, as := splitArraySort(sort)
		na := e.fresh("hav", as)
		lo, hi := SlOff(base.Tm), Add(SlOff(base.Tm), SlCap(base.Tm))
		if m.Kind == ESlice {
			if m.Args[1] != nil {
				lo = Add(SlOff(base.Tm), env.evalInt(m.Args[1]))
			}
			if m.Args[2] != nil {
				hi = Add(SlOff(base.Tm), env.evalInt(m.Args[2]))
			}
		} else {
			i := env.evalInt(m.Args[1])
			lo = Add(SlOff(base.Tm), i)
			hi = Add(lo, IntLit(1))
		}
		i := Term{"i!q", SInt}
		old := Select(mm, SlRef(base.Tm))
		st.assume(Forall([]Term{i}, Implies(Or(Lt(i, lo), Ge(i, hi)), Eq(Select(na, i), Select(old, i)))))
		st.heapSet(name, sort, Store(mm, SlRef(base.Tm), na))
		return
	case EUn:
		if m.Op == "*" {
			base := env.eval(m.Args[0])
			pt := types.Unalias(base.T).Underlying().(*types.Pointer)
			ref, _ := st.tryPtrTerm(base)
			if stt, ok := types.Unalias(pt.Elem()).Underlying().(*types.Struct); ok {
				for i := 0; i < stt.NumFields(); i++ {
					name, sort := e.fieldHeapName(pt.Elem(), i)
					h := st.heapGet(name, sort)
					_, fs := splitArraySort(sort)
					nv := e.fresh("hav", fs)
					st.assume(e.typeInv(stt.Field(i).Type(), nv))
					st.heapSet(name, sort, Store(h, ref, nv))
				}
				return
			}
			name, sort := e.boxName(pt.Elem())
			h := st.heapGet(name, sort)
			_, fs := splitArraySort(sort)
			nv := e.fresh("hav", fs)
			st.assume(e.typeInv(pt.Elem(), nv))
			st.heapSet(name, sort, Store(h, ref, nv))
			return
		}
	}
	panic(specErr("unsupported modifies entry %s", m))
}


// pkgQualifiedHeap: pkg.name denoting a ghost variable or a global variable of a package
func (e *Engine) pkgQualifiedHeap(m *Expr) (string, Sort, types.Type, bool) {
	if m.Kind != ESel || m.Args[0].Kind != EIdent {
		return "", "", nil, false
	}
	pk := m.Args[0].Op
	if gd := e.specs.Ghosts[pk+"."+m.Op]; gd != nil && !gd.IsField {
		T := e.resolveType(gd.Type, gd.PkgName)
		return "GH_" + sanitize(gd.PkgName+"_"+gd.Name), e.sortOf(T), T, true
	}
	for _, tp := range e.ld.allTypesPkgs() {
		if tp.Name() == pk {
			if obj, ok := tp.Scope().Lookup(m.Op).(*types.Var); ok {
				return "G_" + sanitize(obj.Pkg().Name()+"_"+obj.Name()), e.sortOf(obj.Type()), obj.Type(), true
			}
		}
	}
	return "", "", nil, false
}

// ghostArrayElem: a modifies entry g[i] with g a ghost variable of array type
func (env *Env) ghostArrayElem(m *Expr) (string, Sort, Term, bool) {
	if m.Kind != EIndex {
		return "", "", Term{}, false
	}
	b := m.Args[0]
	var gd *GhostDecl
	e := env.eng()
	if b.Kind == EIdent {
		if _, isVar := env.vars[b.Op]; isVar {
			return "", "", Term{}, false
		}
		pk := ""
		if env.callee != nil {
			pk = env.callee.PkgName
		} else if env.pkg != nil {
			pk = env.pkg.Name()
		}
		gd = e.specs.Ghosts[pk+"."+b.Op]
		if gd == nil {
			gd = e.specs.Ghosts["prelude."+b.Op]
		}
	} else if b.Kind == ESel && b.Args[0].Kind == EIdent {
		gd = e.specs.Ghosts[b.Args[0].Op+"."+b.Op]
	}
	if gd == nil || gd.IsField {
		return "", "", Term{}, false
	}
	T := e.resolveType(gd.Type, gd.PkgName)
	if _, ok := T.Underlying().(*types.Array); !ok {
		return "", "", Term{}, false
	}
	idx := env.evalInt(m.Args[1])
	return "GH_" + sanitize(gd.PkgName+"_"+gd.Name), e.sortOf(T), idx, true
}

// tryMapExpr: a modifies entry that denotes a map object (a variable or field of map type)
func (env *Env) tryMapExpr(m *Expr) (Value, *types.Map) {
	if m.Kind != EIdent && m.Kind != ESel {
		return Value{}, nil
	}
	var v Value
	ok := func() (ok bool) {
		defer func() {
			if r := recover(); r != nil {
				if _, isEE := r.(*EngineError); isEE {
					ok = false
					return
				}
				panic(r)
			}
		}()
		if m.Kind == EIdent {
			if _, has := env.vars[m.Op]; !has {
				if env.fr == nil {
					return false
				}
				if _, has2 := env.fr.params[m.Op]; !has2 {
					return false
				}
			}
		} else if env.st.typeOfExpr(env, m.Args[0]) != nil {
			return false
		}
		v = env.eval(m)
		return true
	}()
	if !ok || v.T == nil {
		return Value{}, nil
	}
	mt, isMap := types.Unalias(v.T).Underlying().(*types.Map)
	if !isMap {
		return Value{}, nil
	}
	return v, mt
}

func (env *Env) ghostFieldSort(T types.Type, name string) Sort {
	n := types.Unalias(T).(*types.Named)
	pk := ""
	if n.Obj().Pkg() != nil {
		pk = n.Obj().Pkg().Name()
	}
	gd := env.eng().specs.Ghosts[pk+"."+n.Obj().Name()+"."+name]
	FT := env.eng().resolveType(gd.Type, gd.PkgName)
	return ArraySort(SInt, env.eng().sortOf(FT))
}

func (env *Env) ghostFieldDecl(T types.Type, name string) string {
	n, ok := types.Unalias(T).(*types.Named)
	if !ok {
		return ""
	}
	pk := ""
	if n.Obj().Pkg() != nil {
		pk = n.Obj().Pkg().Name()
	}
	if env.eng().specs.Ghosts[pk+"."+n.Obj().Name()+"."+name] == nil {
		return ""
	}
	return "GF_" + sanitize(pk+"_"+n.Obj().Name()+"_"+name)
}

// typeOfExpr: a spec expression that names a type: T or pkg.T
func (st *State) typeOfExpr(env *Env, x *Expr) types.Type {
	switch x.Kind {
	case EIdent:
		return st.tryTypeName(env, x.Op)
	case ESel:
		if x.Args[0].Kind == EIdent {
			if _, ok := env.vars[x.Args[0].Op]; ok {
				return nil
			}
			if env.fr != nil {
				if _, ok := env.fr.params[x.Args[0].Op]; ok {
					return nil
				}
			}
			return st.eng().lookupTypeByPkgName(x.Args[0].Op, x.Op)
		}
	}
	return nil
}

func (st *State) isPkgName(env *Env, name string) bool {
	if _, ok := env.vars[name]; ok {
		return false
	}
	if env.fr != nil {
		if _, ok := env.fr.params[name]; ok {
			return false
		}
		if _, ok := env.local(name); ok {
			return false
		}
	}
	return st.tryTypeName(env, name) == nil
}

func (st *State) tryTypeName(env *Env, name string) types.Type {
	if _, ok := env.vars[name]; ok {
		return nil
	}
	if env.fr != nil {
		if _, ok := env.fr.params[name]; ok {
			return nil
		}
	}
	if env.pkg != nil {
		if tn, ok := env.pkg.Scope().Lookup(name).(*types.TypeName); ok {
			return tn.Type()
		}
	}
	return nil
}

func (st *State) havocAll() { st.havocAllExcept(nil) }

// localOnlyBox: a heap-allocated local (captured by closures of its own function) whose address never leaves the
// function: it is only stored to, loaded from, bound into closures that are called on the spot, or shown to debug info.
func localOnlyBox(a *ssa.Alloc) bool {
	if a == nil || a.Referrers() == nil {
		return false
	}
	for _, r := range *a.Referrers() {
		switch x := r.(type) {
		case *ssa.Store:
			if x.Addr != a {
				return false // its address is stored somewhere
			}
		case *ssa.UnOp, *ssa.DebugRef, *ssa.FieldAddr, *ssa.IndexAddr:
			if fa, ok := x.(*ssa.FieldAddr); ok {
				_ = fa
				return false
			}
			if ia, ok := x.(*ssa.IndexAddr); ok {
				_ = ia
				return false
			}
		case *ssa.MakeClosure:
			if x.Referrers() == nil {
				return false
			}
			for _, cr := range *x.Referrers() {
				switch y := cr.(type) {
				case *ssa.Call:
					if y.Call.Value != x {
						return false
					}
				case *ssa.Defer:
					if y.Call.Value != x {
						return false
					}
				case *ssa.DebugRef:
				default:
					return false
				}
			}
		default:
			return false
		}
	}
	return true
}

func (st *State) havocAllExcept(except map[string]bool) {
	e := st.eng()
	// locals of the frames on the stack that live in boxes only because closures of the same function capture them keep
	// their values: no callee can reach them
	type saved struct {
		p *Pointer
		v Value
	}
	var keep []saved
	for fr := st.frame; fr != nil; fr = fr.parent {
		for k, v := range fr.regs {
			if a, ok := k.(*ssa.Alloc); ok && a.Heap && v.Ptr != nil && v.Ptr.Kind == RObj && len(v.Ptr.Path) == 0 && localOnlyBox(a) {
				if _, isArr := types.Unalias(v.Ptr.RootT).Underlying().(*types.Array); isArr {
					continue
				}
				keep = append(keep, saved{v.Ptr, st.load(v.Ptr)})
			}
		}
	}
	defer func() {
		for _, k := range keep {
			st.store(k.p, k.v)
		}
	}()
	// a heap variable that is excepted but has not been mentioned on this path yet must keep the version it has NOW
	// (an earlier havoc-all may have started a new epoch): materialise it before the epoch changes
	for name := range except {
		if _, ok := st.heap[name]; !ok {
			if srt, known := e.heapSorts[name]; known {
				st.heapGet(name, srt)
			}
		}
	}
	for name := range st.heap {
		if name == "RO" || except[name] || strings.HasPrefix(name, "NC_") || strings.HasPrefix(name, "NCF_") || strings.HasPrefix(name, "NCR_") || strings.HasPrefix(name, "NCS_") {
			// (call counters count the calls made by the unit's own body: a callee cannot change them)
			continue
		}
		st.heapHavoc(name, e.heapSorts[name])
	}
	if len(except) > 0 {
		// heap variables not yet mentioned on this path and excluded keep their initial version; others get a new epoch
		st.epochExcept = except
	}
	st.epoch++
}

func (e *Engine) preservedNames(spec *FuncSpec) map[string]bool {
	if len(spec.Preserves) == 0 {
		return nil
	}
	ws := newWriteSet()
	for _, p := range spec.Preserves {
		e.modifiesHeapNames(spec, p, ws)
	}
	out := map[string]bool{}
	for n, srt := range ws.heap {
		out[n] = true
		if _, known := e.heapSorts[n]; !known {
			e.heapSorts[n] = srt
		}
	}
	return out
}

// ---------------------------------------------------------------------------------------------
// loops: havoc of everything assigned in the loop body

type writeSet struct {
	cells  map[*ssa.Alloc]bool
	heap   map[string]Sort
	all    bool
	except map[string]bool // with all: heap variables left alone
}

func newWriteSet() *writeSet {
	return &writeSet{cells: map[*ssa.Alloc]bool{}, heap: map[string]Sort{}}
}


func (e *Engine) addrRoot(v ssa.Value, ws *writeSet) {
	switch x := v.(type) {
	case *ssa.Alloc:
		T := x.Type().Underlying().(*types.Pointer).Elem()
		if _, isArr := types.Unalias(T).Underlying().(*types.Array); isArr {
			n, s := e.memName(elemOf(T))
			ws.heap[n] = s
			return
		}
		if !x.Heap {
			ws.cells[x] = true
			return
		}
		e.addPointeeWrites(T, ws)
	case *ssa.FieldAddr:
		switch b := x.X.(type) {
		case *ssa.FieldAddr, *ssa.IndexAddr:
			e.addrRoot(b, ws)
		case *ssa.Alloc:
			if !b.Heap {
				ws.cells[b] = true
				return
			}
			T := x.X.Type().Underlying().(*types.Pointer).Elem()
			n, s := e.fieldHeapName(T, x.Field)
			ws.heap[n] = s
		default:
			T := x.X.Type().Underlying().(*types.Pointer).Elem()
			n, s := e.fieldHeapName(T, x.Field)
			ws.heap[n] = s
		}
	case *ssa.IndexAddr:
		switch t := types.Unalias(x.X.Type()).Underlying().(type) {
		case *types.Slice:
			n, s := e.memName(t.Elem())
			ws.heap[n] = s
		case *types.Pointer:
			switch b := x.X.(type) {
			case *ssa.FieldAddr, *ssa.IndexAddr:
				e.addrRoot(b, ws)
			default:
				arr := types.Unalias(t.Elem()).Underlying().(*types.Array)
				n, s := e.memName(arr.Elem())
				ws.heap[n] = s
			}
		}
	case *ssa.Global:
		T := x.Type().Underlying().(*types.Pointer).Elem()
		ws.heap["G_"+sanitize(x.Pkg.Pkg.Name()+"_"+x.Name())] = e.sortOf(T)
	case *ssa.FreeVar:
		// captured variable: treated as a cell of the closure unit (havocked by name is not possible) → be safe
		ws.all = true
	default:
		if pt, ok := types.Unalias(v.Type()).Underlying().(*types.Pointer); ok {
			e.addPointeeWrites(pt.Elem(), ws)
		} else {
			ws.all = true
		}
	}
}

func (e *Engine) addPointeeWrites(T types.Type, ws *writeSet) {
	if stt, ok := types.Unalias(T).Underlying().(*types.Struct); ok {
		for i := 0; i < stt.NumFields(); i++ {
			n, s := e.fieldHeapName(T, i)
			ws.heap[n] = s
		}
		return
	}
	if arr, ok := types.Unalias(T).Underlying().(*types.Array); ok {
		n, s := e.memName(arr.Elem())
		ws.heap[n] = s
		return
	}
	n, s := e.boxName(T)
	ws.heap[n] = s
}

func (e *Engine) instrWrites(in ssa.Instruction, ws *writeSet) {
	switch x := in.(type) {
	case *ssa.Store:
		e.addrRoot(x.Addr, ws)
	case *ssa.Alloc:
		T := x.Type().Underlying().(*types.Pointer).Elem()
		if _, isArr := types.Unalias(T).Underlying().(*types.Array); isArr {
			n, s := e.memName(elemOf(T))
			ws.heap[n] = s
		} else if x.Heap {
			e.addPointeeWrites(T, ws)
		} else {
			ws.cells[x] = true
		}
	case *ssa.MakeSlice:
		n, s := e.memName(elemOf(x.Type()))
		ws.heap[n] = s
	case *ssa.Convert:
		if isSlice(x.Type()) && isString(x.X.Type()) {
			n, s := e.memName(elemOf(x.Type()))
			ws.heap[n] = s
		}
	case *ssa.MapUpdate:
		mt := types.Unalias(x.Map.Type()).Underlying().(*types.Map)
		for _, n := range e.mapHeapNames(mt) {
			ws.heap[n.name] = n.sort
		}
	case *ssa.MakeMap:
		mt := types.Unalias(x.Type()).Underlying().(*types.Map)
		for _, n := range e.mapHeapNames(mt) {
			ws.heap[n.name] = n.sort
		}
	case *ssa.Send, *ssa.Select, *ssa.MakeChan:
		ws.heap["CH_closed"] = ArraySort(SInt, SBool)
		switch y := x.(type) {
		case *ssa.Send:
			ws.heap[chanCounterName("NCS", y.Chan.Type())] = ArraySort(SInt, SInt)
		case *ssa.Select:
			for _, s := range y.States {
				if s.Dir == types.RecvOnly {
					ws.heap[chanCounterName("NCR", s.Chan.Type())] = ArraySort(SInt, SInt)
				} else {
					ws.heap[chanCounterName("NCS", s.Chan.Type())] = ArraySort(SInt, SInt)
				}
			}
		}
	case *ssa.UnOp:
		if x.Op == token.ARROW {
			ws.heap[chanCounterName("NCR", x.X.Type())] = ArraySort(SInt, SInt)
		}
	case *ssa.Call:
		e.callWrites(&x.Call, ws)
	case *ssa.Defer:
		e.callWrites(&x.Call, ws)
	case *ssa.Go:
	case *ssa.RunDefers:
		// deferred calls of this function: accounted for at the Defer instruction
	}
}

func (e *Engine) callWrites(c *ssa.CallCommon, ws *writeSet) {
	if b, ok := c.Value.(*ssa.Builtin); ok {
		switch b.Name() {
		case "append", "copy":
			n, s := e.memName(elemOf(c.Args[0].Type()))
			ws.heap[n] = s
		case "delete":
			mt := types.Unalias(c.Args[0].Type()).Underlying().(*types.Map)
			for _, n := range e.mapHeapNames(mt) {
				ws.heap[n.name] = n.sort
			}
		case "close":
			ws.heap["CH_closed"] = ArraySort(SInt, SBool)
		}
		return
	}
	if c.IsInvoke() {
		key := ifaceMethodKey(c)
		if spec := e.specs.Funcs[key]; spec != nil {
			e.specWrites(spec, ws)
			return
		}
		// unmodelled: havocs one level of its arguments
		e.unmodelledWrites(c, ws)
		return
	}
	callee := c.StaticCallee()
	if callee == nil {
		// func value: MakeClosure in the same function?
		if mc, ok := c.Value.(*ssa.MakeClosure); ok {
			callee = mc.Fn.(*ssa.Function)
		}
	}
	if callee == nil {
		// dynamic: fnspec by origin unknown statically; conservative unless a field fnspec exists
		if u, ok := c.Value.(*ssa.UnOp); ok {
			if fa, ok := u.X.(*ssa.FieldAddr); ok {
				T := fa.X.Type().Underlying().(*types.Pointer).Elem()
				if n, ok := types.Unalias(T).(*types.Named); ok {
					key := n.Obj().Pkg().Name() + "." + n.Obj().Name() + "." + n.Underlying().(*types.Struct).Field(fa.Field).Name()
					ws.heap["NCF_"+sanitize(key)] = ArraySort(SInt, SInt)
					if spec := e.specs.Funcs[key]; spec != nil {
						e.specWrites(spec, ws)
						return
					}
				}
			}
		}
		e.unmodelledWrites(c, ws)
		return
	}
	key := e.ld.keyOf[callee]
	if key == "" {
		key = FuncKey(callee)
	}
	if key == "util.StringFromBytes" {
		return
	}
	if key == "binary.littleEndian.AppendUint64" {
		n, s := e.memName(types.Typ[types.Uint8])
		ws.heap[n] = s
		return
	}
	if key == "util.BytesFromString" {
		n, s := e.memName(types.Typ[types.Uint8])
		ws.heap[n] = s
		ws.heap["RO"] = ArraySort(SInt, SBool)
		return
	}
	if callee.Pkg != nil && callee.Pkg.Pkg.Path() == "github.com/relex/gotils/logger" {
		return
	}
	spec := e.specs.Funcs[key]
	if spec != nil && (spec.Extern || callee.Blocks == nil || spec.HasMod) {
		e.specWrites(spec, ws)
		if spec.Flags["counted"] != "" {
			ws.heap["NC_"+sanitize(key)] = SInt
		}
		return
	}
	if callee.Blocks != nil {
		cw := e.funcWrites(callee)
		if cw.all {
			ws.all = true
		}
		for n, s := range cw.heap {
			ws.heap[n] = s
		}
		if spec != nil && spec.Flags["counted"] != "" {
			ws.heap["NC_"+sanitize(key)] = SInt
		}
		return
	}
	e.unmodelledWrites(c, ws)
}

func (e *Engine) unmodelledWrites(c *ssa.CallCommon, ws *writeSet) {
	for _, a := range c.Args {
		switch t := types.Unalias(a.Type()).Underlying().(type) {
		case *types.Slice:
			n, s := e.memName(t.Elem())
			ws.heap[n] = s
		case *types.Pointer:
			e.addPointeeWrites(t.Elem(), ws)
		}
	}
}

// specWrites: heap variables named by a modifies clause (type-based over-approximation)
func (e *Engine) specWrites(spec *FuncSpec, ws *writeSet) {
	for i, m := range spec.Modifies {
		if m.Kind == EIdent && m.Op == "everything" {
			pn := e.preservedNames(spec)
			if !ws.all {
				ws.all = true
				ws.except = pn
			} else {
				// intersection of the exclusions
				for n := range ws.except {
					if !pn[n] {
						delete(ws.except, n)
					}
				}
			}
			continue
		}
		if !e.modifiesHeapNames(spec, m, ws) {
			_ = i
			ws.all = true
			ws.except = nil
		}
	}
}

// funcWrites: heap variables possibly written by a function body (transitively)
func (e *Engine) funcWrites(fn *ssa.Function) *writeSet {
	fnWriteCache, fnWriteBusy := e.fnWriteCache, e.fnWriteBusy
	if ws, ok := fnWriteCache[fn]; ok {
		return ws
	}
	if fnWriteBusy[fn] {
		ws := newWriteSet()
		ws.all = true
		return ws
	}
	fnWriteBusy[fn] = true
	ws := newWriteSet()
	for _, b := range fn.Blocks {
		for _, in := range b.Instrs {
			e.instrWrites(in, ws)
		}
	}
	delete(fnWriteBusy, fn)
	fnWriteCache[fn] = ws
	return ws
}

func (st *State) havocLoop(li *loopInfo) *writeSet {
	e := st.eng()
	fr := st.frame
	ws := newWriteSet()
	for b := range li.body {
		for _, in := range b.Instrs {
			e.instrWrites(in, ws)
		}
	}
	if ws.all {
		st.havocAllExcept(ws.except)
		e.assumes["a loop calls code with an unknown write set: whole heap havocked at that loop"] = true
	}
	if fr.spec != nil {
		if ls := fr.spec.Loops[li.ordinal]; ls != nil {
			for _, gs := range ls.GhostSets {
				t := gs[0]
				for t.Kind == EIndex {
					t = t.Args[0]
				}
				if t.Kind == EIdent {
					env := st.newEnv(fr, nil)
					if g := env.ghostVar(t.Op); g != nil {
						ws.heap[st.ghostHeapName(env, t.Op)] = g.Tm.Sort
					}
				}
			}
		}
	}
	// cells
	var allocs []*ssa.Alloc
	for a := range ws.cells {
		allocs = append(allocs, a)
	}
	sort.Slice(allocs, func(i, j int) bool { return allocs[i].Pos() < allocs[j].Pos() })
	for _, a := range allocs {
		c := fr.cells[a]
		if c == nil {
			continue // declared inside the loop: initialised there
		}
		// only cells that already exist (declared before the loop) carry values across iterations
		st.cellVal[c] = st.symbolicValue("l_"+c.Name, c.T)
	}
	names := make([]string, 0, len(ws.heap))
	for n := range ws.heap {
		names = append(names, n)
	}
	sort.Strings(names)
	for _, n := range names {
		if n == "RO" {
			// read-only marks are monotone per ref; keep
			st.written["RO"] = true
			continue
		}
		st.heapHavocFramed(n, ws.heap[n])
	}
	// allocation watermark may have grown
	na := e.fresh("alloc", SInt)
	st.assume(Ge(na, st.alloc))
	st.alloc = na
	return ws
}

// heapHavocFramed havocs a heap variable (all objects).
func (st *State) heapHavocFramed(name string, sort Sort) {
	st.heapHavoc(name, sort)
}

// ---------------------------------------------------------------------------------------------
// frame check at function exit: everything written must be covered by the modifies clause

func (u *Unit) checkFrame(st *State, pos token.Pos) {
	if u.spec == nil || u.spec.Flags["noframe"] != "" {
		return
	}
	e := u.eng
	fr := st.frame
	ent := st.entry
	// allowed locations, evaluated in the entry state
	type objLoc struct {
		ref    Term
		lo, hi Term
		ranged bool
	}
	allowedObj := map[string][]objLoc{}
	allowedAll := map[string]bool{}
	everything := false
	for _, m := range u.spec.Modifies {
		env := ent.newEnv(fr, nil)
		env.post = true
		env.old = ent
		ws := newWriteSet()
		if m.Kind == EIdent && m.Op == "everything" {
			everything = true
			continue
		}
		if mv, mt := env.tryMapExpr(m); mt != nil {
			for _, h := range e.mapHeapNames(mt) {
				allowedObj[h.name] = append(allowedObj[h.name], objLoc{ref: mv.Tm})
			}
			continue
		}
		if hn, _, _, ok := e.pkgQualifiedHeap(m); ok && st.isPkgName(env, m.Args[0].Op) {
			allowedAll[hn] = true
			continue
		}
		if hn, _, idx, ok := env.ghostArrayElem(m); ok {
			allowedObj[hn] = append(allowedObj[hn], objLoc{ref: idx})
			continue
		}
		// object-granular?
		switch m.Kind {
		case ESel:
			if st.typeOfExpr(env, m.Args[0]) != nil {
				e.modifiesHeapNames(u.spec, m, ws)
				for n := range ws.heap {
					allowedAll[n] = true
				}
				continue
			}
			base := env.eval(m.Args[0])
			ref, _ := st.tryPtrTerm(base)
			pt := types.Unalias(base.T).Underlying().(*types.Pointer)
			if stt, ok := types.Unalias(pt.Elem()).Underlying().(*types.Struct); ok {
				found := false
				for i := 0; i < stt.NumFields(); i++ {
					if stt.Field(i).Name() == m.Op || m.Op == "*" {
						n, _ := e.fieldHeapName(pt.Elem(), i)
						allowedObj[n] = append(allowedObj[n], objLoc{ref: ref})
						found = true
					}
				}
				if !found {
					if hn := env.ghostFieldDecl(pt.Elem(), m.Op); hn != "" {
						allowedObj[hn] = append(allowedObj[hn], objLoc{ref: ref})
					}
				}
			}
		case EIndex, ESlice:
			base := env.eval(m.Args[0])
			el := elemOf(base.T)
			n, _ := e.memName(el)
			lo, hi := SlOff(base.Tm), Add(SlOff(base.Tm), SlCap(base.Tm))
			if m.Kind == ESlice {
				if m.Args[1] != nil {
					lo = Add(SlOff(base.Tm), env.evalInt(m.Args[1]))
				}
				if m.Args[2] != nil {
					hi = Add(SlOff(base.Tm), env.evalInt(m.Args[2]))
				}
			} else {
				lo = Add(SlOff(base.Tm), env.evalInt(m.Args[1]))
				hi = Add(lo, IntLit(1))
			}
			allowedObj[n] = append(allowedObj[n], objLoc{ref: SlRef(base.Tm), lo: lo, hi: hi, ranged: true})
		case EUn:
			base := env.eval(m.Args[0])
			ref, _ := st.tryPtrTerm(base)
			pt := types.Unalias(base.T).Underlying().(*types.Pointer)
			if stt, ok := types.Unalias(pt.Elem()).Underlying().(*types.Struct); ok {
				for i := 0; i < stt.NumFields(); i++ {
					n, _ := e.fieldHeapName(pt.Elem(), i)
					allowedObj[n] = append(allowedObj[n], objLoc{ref: ref})
				}
			} else {
				n, _ := e.boxName(pt.Elem())
				allowedObj[n] = append(allowedObj[n], objLoc{ref: ref})
			}
		default:
			if e.modifiesHeapNames(u.spec, m, ws) {
				for n := range ws.heap {
					allowedAll[n] = true
				}
			}
		}
		st.assumeAll(env.defs)
	}
	if everything {
		return
	}
	names := make([]string, 0, len(st.written))
	for n := range st.written {
		names = append(names, n)
	}
	sort.Strings(names)
	for _, n := range names {
		if e.scratchHeaps()[n] {
			continue // scratch ghost variable: nobody may rely on it across a call
		}
		if allowedAll[n] || n == "RO" || strings.HasPrefix(n, "NC_") || strings.HasPrefix(n, "NCF_") || strings.HasPrefix(n, "NCR_") || strings.HasPrefix(n, "NCS_") || strings.HasPrefix(n, "CH_") {
			continue
		}
		sortN := e.heapSorts[n]
		cur := st.heap[n]
		old, ok := ent.heap[n]
		if !ok {
			continue
		}
		if cur.S == old.S {
			continue
		}
		if !strings.HasPrefix(string(sortN), "(Array Int ") {
			// scalar heap variable (global, ghost)
			u.addObl(st, "frame", n, pos, Eq(cur, old), false)
			continue
		}
		r := Term{"r!q", SInt}
		i := Term{"i!q", SInt}
		allocated := And(Ge(r, IntLit(0)), Le(r, ent.alloc))
		if strings.HasPrefix(n, "M_") {
			var excl []Term
			for _, ol := range allowedObj[n] {
				if ol.ranged {
					excl = append(excl, And(Eq(r, ol.ref), Le(ol.lo, i), Lt(i, ol.hi)))
				} else {
					excl = append(excl, Eq(r, ol.ref))
				}
			}
			goal := Forall([]Term{r, i}, Implies(And(allocated, Not(Or(excl...))), Eq(Select(Select(cur, r), i), Select(Select(old, r), i))))
			u.addObl(st, "frame", n, pos, goal, false)
			continue
		}
		var excl []Term
		for _, ol := range allowedObj[n] {
			excl = append(excl, Eq(r, ol.ref))
		}
		goal := Forall([]Term{r}, Implies(And(allocated, Not(Or(excl...))), Eq(Select(cur, r), Select(old, r))))
		u.addObl(st, "frame", n, pos, goal, false)
		if len(u.obls) > 0 && u.obls[len(u.obls)-1].Kind == "frame" && strings.HasPrefix(n, "H_") {
			if i := strings.LastIndex(n, "_"); i >= 0 {
				u.obls[len(u.obls)-1].FrameField = e.fieldOfHeap[n]
			}
		}
	}
}

// modifiesHeapNames: type-level resolution of a modifies entry into heap variable names.
func (e *Engine) modifiesHeapNames(spec *FuncSpec, m *Expr, ws *writeSet) bool {
	if m.Kind == ESel && m.Args[0].Kind == EIdent && e.staticTypeOfSpecExpr(spec, m.Args[0]) == nil && e.lookupTypeByPkgName(spec.PkgName, m.Args[0].Op) == nil {
		if hn, sort, _, ok := e.pkgQualifiedHeap(m); ok {
			ws.heap[hn] = sort
			return true
		}
	}
	switch m.Kind {
	case EIdent:
		if m.Op == "everything" {
			ws.all = true
			return true
		}
		gdx := e.specs.Ghosts[spec.PkgName+"."+m.Op]
		if gdx == nil {
			gdx = e.specs.Ghosts["prelude."+m.Op]
		}
		if gd := gdx; gd != nil && !gd.IsField {
			T := e.resolveType(gd.Type, gd.PkgName)
			ws.heap["GH_"+sanitize(gd.PkgName+"_"+gd.Name)] = e.sortOf(T)
			return true
		}
		for _, tp := range e.ld.allTypesPkgs() {
			if tp.Name() == spec.PkgName {
				if obj, ok := tp.Scope().Lookup(m.Op).(*types.Var); ok {
					ws.heap["G_"+sanitize(obj.Pkg().Name()+"_"+obj.Name())] = e.sortOf(obj.Type())
					return true
				}
			}
		}
	case ECall:
		if m.Args[0].Kind == EIdent && m.Args[0].Op == "mem" {
			T := e.resolveType(m.Args[1].String(), spec.PkgName)
			n, s := e.memName(T)
			ws.heap[n] = s
			return true
		}
		if m.Args[0].Kind == EIdent && m.Args[0].Op == "ncalls" && m.Args[1].Kind == EStr {
			k := strings.Trim(m.Args[1].Op, "\"")
			ws.heap["NC_"+sanitize(k)] = SInt
			return true
		}
	case ESel:
		if m.Args[0].Kind == EIdent || (m.Args[0].Kind == ESel && m.Args[0].Args[0].Kind == EIdent) {
			var T types.Type
			if m.Args[0].Kind == EIdent {
				T = e.lookupTypeByPkgName(spec.PkgName, m.Args[0].Op)
			} else if e.staticTypeOfSpecExpr(spec, m.Args[0].Args[0]) == nil {
				T = e.lookupTypeByPkgName(m.Args[0].Args[0].Op, m.Args[0].Op)
			}
			if T != nil {
				if stt, ok := types.Unalias(T).Underlying().(*types.Struct); ok {
					ok2 := false
					for i := 0; i < stt.NumFields(); i++ {
						if stt.Field(i).Name() == m.Op || m.Op == "*" {
							n, s := e.fieldHeapName(T, i)
							ws.heap[n] = s
							ok2 = true
						}
					}
					if !ok2 {
						nm := types.Unalias(T).(*types.Named)
						tpk := nm.Obj().Pkg().Name()
						if gd := e.specs.Ghosts[tpk+"."+nm.Obj().Name()+"."+m.Op]; gd != nil {
							FT := e.resolveType(gd.Type, gd.PkgName)
							ws.heap["GF_"+sanitize(tpk+"_"+nm.Obj().Name()+"_"+m.Op)] = ArraySort(SInt, e.sortOf(FT))
							ok2 = true
						}
					}
					return ok2
				}
			}
		}
		// x.f with x a parameter: need the static type of x: resolve through the function signature
		if T := e.staticTypeOfSpecExpr(spec, m.Args[0]); T != nil {
			if pt, ok := types.Unalias(T).Underlying().(*types.Pointer); ok {
				if stt, ok := types.Unalias(pt.Elem()).Underlying().(*types.Struct); ok {
					ok2 := false
					for i := 0; i < stt.NumFields(); i++ {
						if stt.Field(i).Name() == m.Op || m.Op == "*" {
							n, s := e.fieldHeapName(pt.Elem(), i)
							ws.heap[n] = s
							ok2 = true
						}
					}
					if !ok2 {
						if nm, ok := types.Unalias(pt.Elem()).(*types.Named); ok {
							pk := nm.Obj().Pkg().Name()
							if gd := e.specs.Ghosts[pk+"."+nm.Obj().Name()+"."+m.Op]; gd != nil {
								FT := e.resolveType(gd.Type, gd.PkgName)
								ws.heap["GF_"+sanitize(pk+"_"+nm.Obj().Name()+"_"+m.Op)] = ArraySort(SInt, e.sortOf(FT))
								ok2 = true
							}
						}
					}
					return ok2
				}
			}
		}
	case EIndex, ESlice:
		if m.Kind == EIndex {
			b := m.Args[0]
			var gd *GhostDecl
			if b.Kind == EIdent {
				gd = e.specs.Ghosts[spec.PkgName+"."+b.Op]
				if gd == nil {
					gd = e.specs.Ghosts["prelude."+b.Op]
				}
			} else if b.Kind == ESel && b.Args[0].Kind == EIdent {
				gd = e.specs.Ghosts[b.Args[0].Op+"."+b.Op]
			}
			if gd != nil && !gd.IsField && e.staticTypeOfSpecExpr(spec, b) == nil {
				T := e.resolveType(gd.Type, gd.PkgName)
				ws.heap["GH_"+sanitize(gd.PkgName+"_"+gd.Name)] = e.sortOf(T)
				return true
			}
		}
		if T := e.staticTypeOfSpecExpr(spec, m.Args[0]); T != nil {
			if sl, ok := types.Unalias(T).Underlying().(*types.Slice); ok {
				n, s := e.memName(sl.Elem())
				ws.heap[n] = s
				return true
			}
		}
	case EUn:
		if T := e.staticTypeOfSpecExpr(spec, m.Args[0]); T != nil {
			if pt, ok := types.Unalias(T).Underlying().(*types.Pointer); ok {
				e.addPointeeWrites(pt.Elem(), ws)
				return true
			}
		}
	}
	return false
}

// staticTypeOfSpecExpr: static type of a simple spec expression (param, param.field...) using the
// function's signature.
func (e *Engine) staticTypeOfSpecExpr(spec *FuncSpec, x *Expr) types.Type {
	switch x.Kind {
	case EIdent:
		fn := e.ld.byKey[spec.Key]
		if fn != nil {
			for _, p := range fn.Params {
				if p.Name() == x.Op {
					return p.Type()
				}
			}
		}
		for i, n := range spec.ParamNames {
			if n == x.Op && i < len(spec.ParamTypes) && spec.ParamTypes[i] != "" {
				var T types.Type
				func() {
					defer func() { recover() }()
					T = e.resolveType(spec.ParamTypes[i], spec.PkgName)
				}()
				if T != nil {
					return T
				}
			}
		}
	case ESel:
		T := e.staticTypeOfSpecExpr(spec, x.Args[0])
		if T == nil {
			return nil
		}
		if pt, ok := types.Unalias(T).Underlying().(*types.Pointer); ok {
			T = pt.Elem()
		}
		if f, _ := findField(T, x.Op); f != nil {
			return f.Type()
		}
	case EUn:
		if x.Op == "*" {
			T := e.staticTypeOfSpecExpr(spec, x.Args[0])
			if T != nil {
				if pt, ok := types.Unalias(T).Underlying().(*types.Pointer); ok {
					return pt.Elem()
				}
			}
		}
	}
	return nil
}

// reachablePkgs: names of the packages the unit's package imports, transitively (plus itself)
func reachablePkgs(p *types.Package) map[string]bool {
	out := map[string]bool{}
	var walk func(q *types.Package)
	walk = func(q *types.Package) {
		if q == nil || out[q.Path()] {
			return
		}
		out[q.Path()] = true
		for _, i := range q.Imports() {
			walk(i)
		}
	}
	walk(p)
	names := map[string]bool{}
	for path := range out {
		if i := strings.LastIndexByte(path, '/'); i >= 0 {
			names[path[i+1:]] = true
		} else {
			names[path] = true
		}
	}
	return names
}

func (st *State) assumeGlobalInvs() {
	e := st.eng()
	var reach map[string]bool
	if st.u.fn.Pkg != nil {
		reach = reachablePkgs(st.u.fn.Pkg.Pkg)
	}
	for _, g := range e.specs.Globals {
		// only invariants about packages this unit's package can reach (keeps the contexts small)
		if reach != nil {
			pk := g.PkgName
			if pk == "prelude" || pk == "" {
				// external catalogue: the package name is the first identifier of the text
				txt := strings.TrimSpace(strings.TrimPrefix(strings.TrimSpace(g.Text), ":"))
				if m := regexp.MustCompile(`([A-Za-z_][A-Za-z0-9_]*)\.`).FindStringSubmatch(txt); m != nil {
					pk = m[1]
				}
			}
			if pk != "" && pk != "prelude" && !reach[pk] {
				continue
			}
		}
		var tp *types.Package
		if p, ok := e.ld.pkgByNm[g.PkgName]; ok {
			tp = p.Types
		}
		env := &Env{st: st, old: st, vars: map[string]Value{}, pkg: tp}
		func() {
			defer func() {
				if r := recover(); r != nil {
					if ee, ok := r.(*EngineError); ok {
						if strings.Contains(ee.msg, "unknown identifier") {
							return // the package is not loaded: nothing under verification can refer to it
						}
						panic(engineErr("global invariant %q: %s", g.Text, ee.msg))
					}
					panic(r)
				}
			}()
			t := env.evalBool(g.E)
			st.assumeAll(env.defs)
			st.assume(t)
		}()
	}
}

var _ = fmt.Sprintf


// chanCounters: the send/receive counters (per element type) the function may change - its own channel operations and
// those of the functions it calls statically (to depth 8)
func (e *Engine) chanCounters(fn *ssa.Function, depth int, out map[string]bool, seen map[*ssa.Function]bool) {
	if fn == nil || fn.Blocks == nil || depth > 8 || seen[fn] {
		return
	}
	seen[fn] = true
	for _, b := range fn.Blocks {
		for _, in := range b.Instrs {
			switch x := in.(type) {
			case *ssa.Send:
				out[chanCounterName("NCS", x.Chan.Type())] = true
			case *ssa.Select:
				for _, s := range x.States {
					if s.Dir == types.RecvOnly {
						out[chanCounterName("NCR", s.Chan.Type())] = true
					} else {
						out[chanCounterName("NCS", s.Chan.Type())] = true
					}
				}
			case *ssa.UnOp:
				if x.Op == token.ARROW {
					out[chanCounterName("NCR", x.X.Type())] = true
				}
			case ssa.CallInstruction:
				if sc := x.Common().StaticCallee(); sc != nil {
					e.chanCounters(sc, depth+1, out, seen)
				}
			}
		}
	}
	for _, af := range fn.AnonFuncs {
		e.chanCounters(af, depth+1, out, seen)
	}
}


// scratchHeaps: heap names of the ghost variables declared `ghost scratch var`
func (e *Engine) scratchHeaps() map[string]bool {
	if e.scratchSet != nil {
		return e.scratchSet
	}
	e.scratchSet = map[string]bool{}
	e.scratchSorts = map[string]Sort{}
	for _, gd := range e.specs.Ghosts {
		if gd.Scratch && !gd.IsField {
			hn := "GH_" + sanitize(gd.PkgName+"_"+gd.Name)
			e.scratchSet[hn] = true
			e.scratchSorts[hn] = e.sortOf(e.resolveType(gd.Type, gd.PkgName))
		}
	}
	return e.scratchSet
}
