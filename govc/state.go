package main

// Symbolic state: cells (locals), heap variables, path condition, pointers.

import (
	"fmt"
	"go/token"
	"go/types"
	"strings"

	"golang.org/x/tools/go/ssa"
)

type Value struct {
	T      types.Type
	Tm     Term
	Ptr    *Pointer
	Tup    []Value
	Clo    *Closure
	Origin string // func values loaded from a struct field: fnspec key
}

type Closure struct {
	Fn       *ssa.Function
	Bindings []Value
}

type Cell struct {
	Name string
	T    types.Type
	ID   int
}

type RootKind int

const (
	RCell RootKind = iota
	RObj
	RGlobal
	RElem
)

type PStep struct {
	IsIdx bool
	Field int
	Idx   Term
	T     types.Type // type of the container being projected
}

type Pointer struct {
	Kind   RootKind
	Cell   *Cell
	Ref    Term
	Idx    Term
	Glob   string
	RootT  types.Type
	Path   []PStep
	SliceT types.Type // RElem: the (possibly named) slice type indexed
}

func (p *Pointer) elemType() types.Type {
	T := p.RootT
	for _, s := range p.Path {
		if s.IsIdx {
			T = elemOf(s.T)
		} else {
			T = types.Unalias(s.T).Underlying().(*types.Struct).Field(s.Field).Type()
		}
	}
	return T
}

func (p *Pointer) extend(s PStep) *Pointer {
	np := *p
	np.Path = append(append([]PStep{}, p.Path...), s)
	return &np
}

type PC struct {
	t    Term
	prev *PC
	n    int
}

type Deferred struct {
	call *ssa.CallCommon
	args []Value // evaluated: [fn value..., args]
	fnv  Value
	pos  token.Pos
}

type Frame struct {
	fn         *ssa.Function
	regs       map[ssa.Value]Value
	cells      map[*ssa.Alloc]*Cell
	block      *ssa.BasicBlock
	prev       *ssa.BasicBlock
	idx        int
	parent     *Frame
	callInstr  ssa.Instruction
	defers     []Deferred
	loopsSeen  map[*ssa.BasicBlock]*loopEntry
	freeVars   map[*ssa.FreeVar]Value
	params     map[string]Value // entry values by name
	depth      int
	spec       *FuncSpec
	inDefer    bool         // frame was started by rundefers
	foreachKey map[int]Term // loop ordinal → key yielded by the current iteration's Next
}

type loopEntry struct {
	decr  Term
	has   bool
	head  *State // state at the loop head of the current iteration (for prev())
	entry *State // state when the loop was entered (for atentry())
}

type State struct {
	u           *Unit
	frame       *Frame
	cellVal     map[*Cell]Value
	heap        map[string]Term
	pc          *PC
	pcSet       map[string]bool
	alloc       Term
	written     map[string]bool
	entry       *State          // snapshot at function entry (for old())
	fresh       map[string]bool // ref terms allocated on this path
	pathLen     int
	trace       []string
	clos        []cloEntry
	ghostN      map[string]Term
	dead        bool
	strKeys     []Term
	epoch       int
	skipEnter   bool
	epochExcept map[string]bool
	selfVal     *Value
	escaped     map[string]bool // field heaps whose embedded array has been sliced on this path: havocked at every read
}

func (f *Frame) clone() *Frame {
	if f == nil {
		return nil
	}
	nf := *f
	nf.regs = make(map[ssa.Value]Value, len(f.regs)+8)
	for k, v := range f.regs {
		nf.regs[k] = v
	}
	nf.cells = make(map[*ssa.Alloc]*Cell, len(f.cells))
	for k, v := range f.cells {
		nf.cells[k] = v
	}
	nf.loopsSeen = make(map[*ssa.BasicBlock]*loopEntry, len(f.loopsSeen))
	for k, v := range f.loopsSeen {
		nf.loopsSeen[k] = v
	}
	nf.defers = append([]Deferred{}, f.defers...)
	if f.foreachKey != nil {
		nf.foreachKey = map[int]Term{}
		for k, v := range f.foreachKey {
			nf.foreachKey[k] = v
		}
	}
	nf.parent = f.parent.clone()
	return &nf
}

func (st *State) clone() *State {
	ns := *st
	ns.frame = st.frame.clone()
	ns.cellVal = make(map[*Cell]Value, len(st.cellVal))
	for k, v := range st.cellVal {
		ns.cellVal[k] = v
	}
	ns.heap = make(map[string]Term, len(st.heap))
	for k, v := range st.heap {
		ns.heap[k] = v
	}
	ns.pcSet = make(map[string]bool, len(st.pcSet))
	for k := range st.pcSet {
		ns.pcSet[k] = true
	}
	ns.written = make(map[string]bool, len(st.written))
	for k := range st.written {
		ns.written[k] = true
	}
	ns.fresh = make(map[string]bool, len(st.fresh))
	for k := range st.fresh {
		ns.fresh[k] = true
	}
	ns.trace = append([]string{}, st.trace...)
	ns.clos = append([]cloEntry{}, st.clos...)
	return &ns
}

// cloEntry: a closure created on this path that was turned into a term (stored in a struct field or an interface)
type cloEntry struct {
	t Term
	c *Closure
}

func (st *State) assume(t Term) {
	if t.S == "true" {
		return
	}
	if strings.HasPrefix(t.S, "(and ") {
		if args, ok := splitArgs(t.S, "and"); ok {
			for _, a := range args {
				st.assume(Term{a, SBool})
			}
			return
		}
	}
	if st.pcSet[t.S] {
		return
	}
	st.pcSet[t.S] = true
	n := 1
	if st.pc != nil {
		n = st.pc.n + 1
	}
	st.pc = &PC{t: t, prev: st.pc, n: n}
}

func (st *State) pcSlice() []Term {
	if st.pc == nil {
		return nil
	}
	out := make([]Term, st.pc.n)
	i := st.pc.n - 1
	for p := st.pc; p != nil; p = p.prev {
		out[i] = p.t
		i--
	}
	return out
}

func (st *State) eng() *Engine { return st.u.eng }

// heapGet returns the current term of a heap variable (declaring its initial version on demand).
func (st *State) heapGet(name string, sort Sort) Term {
	if st.escaped[name] {
		if _, ok := st.heap[name]; !ok {
			st.escaped[name] = false
			st.heapGet(name, sort) // entry version
			st.escaped[name] = true
		}
		t := st.eng().fresh(name, sort)
		st.assumeHeapWF(t, sort)
		st.heap[name] = t
		return t
	}
	if t, ok := st.heap[name]; ok {
		return t
	}
	st.eng().heapSorts[name] = sort
	vn := name + "!0"
	if st.epoch > 0 && !st.epochExcept[name] && !strings.HasPrefix(name, "NC_") && !strings.HasPrefix(name, "NCF_") && !strings.HasPrefix(name, "NCR_") && !strings.HasPrefix(name, "NCS_") {
		vn = fmt.Sprintf("%s!e%d", name, st.epoch)
	}
	t := st.eng().constNamed(vn, sort)
	st.heap[name] = t
	st.assumeHeapWF(t, sort)
	if st.entry != nil && st.entry != st {
		if _, ok := st.entry.heap[name]; !ok {
			// the entry state's version is always the initial one (a havoc-all may lie in between)
			st.entry.heap[name] = st.eng().constNamed(name+"!0", sort)
		}
	}
	return t
}

func (st *State) heapSet(name string, sort Sort, val Term) {
	st.heapGet(name, sort) // make sure the entry version exists
	nt := st.eng().fresh(name, sort)
	st.assume(Eq(nt, val))
	st.heap[name] = nt
	st.written[name] = true
}

func (st *State) heapHavoc(name string, sort Sort) Term {
	st.heapGet(name, sort)
	nt := st.eng().fresh(name, sort)
	st.heap[name] = nt
	st.written[name] = true
	st.assumeHeapWF(nt, sort)
	return nt
}

// assumeHeapWF: strings and slices stored in memory are well-formed Go values (non-negative length, len <= cap).
// Stated once per arbitrary heap version (entry, havoc) so that reads under quantifiers get the fact too.
func (st *State) assumeHeapWF(h Term, sort Sort) {
	r, i := Term{"r!q", SInt}, Term{"i!q", SInt}
	wf := func(v Term, vs Sort) (Term, bool) {
		switch vs {
		case SStr:
			return Ge(StrLen(v), IntLit(0)), true
		case SSlice:
			return And(Ge(SlLen(v), IntLit(0)), Le(SlLen(v), SlCap(v)), Ge(SlOff(v), IntLit(0))), true
		}
		return Term{}, false
	}
	switch sort {
	case ArraySort(SInt, SStr), ArraySort(SInt, SSlice):
		vs := SStr
		if sort == ArraySort(SInt, SSlice) {
			vs = SSlice
		}
		v := Select(h, r)
		if f, ok := wf(v, vs); ok {
			st.assume(ForallPat([]Term{r}, f, v))
		}
	case ArraySort(SInt, ArraySort(SInt, SStr)), ArraySort(SInt, ArraySort(SInt, SSlice)):
		vs := SStr
		if sort == ArraySort(SInt, ArraySort(SInt, SSlice)) {
			vs = SSlice
		}
		v := Select(Select(h, r), i)
		if f, ok := wf(v, vs); ok {
			st.assume(ForallPat([]Term{r, i}, f, v))
		}
	}
}

func (st *State) newRef() Term {
	e := st.eng()
	r := e.fresh("ref", SInt)
	st.assume(Gt(r, st.alloc))
	na := e.fresh("alloc", SInt)
	st.assume(Eq(na, r))
	st.alloc = na
	st.fresh[r.S] = true
	return r
}

// ---------------------------------------------------------------------------------------------
// pointers

func (st *State) asPointer(v Value) *Pointer {
	if v.Ptr != nil {
		return v.Ptr
	}
	pt, ok := types.Unalias(v.T).Underlying().(*types.Pointer)
	if !ok {
		panic(engineErr("asPointer on non-pointer %s", v.T))
	}
	if st.u != nil && st.u.opaquePtrs[v.Tm.S] {
		panic(engineErr("dereference of an opaque interior pointer (unsupported)"))
	}
	return &Pointer{Kind: RObj, Ref: v.Tm, RootT: pt.Elem()}
}

func (st *State) ptrTerm(v Value) Term {
	if v.Ptr == nil {
		return v.Tm
	}
	p := v.Ptr
	if p.Kind == RObj && len(p.Path) == 0 {
		return p.Ref
	}
	// An interior pointer (to a field or element) used as a first-class value - e.g. stored in a struct - cannot be
	// represented as a plain ref. It becomes an opaque non-nil value; dereferencing such a value later in the unit is an
	// engine error (asPointer), so nothing is ever read or written through it unmodelled.
	if p.Kind == RObj || p.Kind == RElem {
		e := st.eng()
		t := e.fresh("iptr", SInt)
		st.assume(Gt(t, IntLit(0)))
		if st.u.opaquePtrs == nil {
			st.u.opaquePtrs = map[string]bool{}
		}
		st.u.opaquePtrs[t.S] = true
		e.assumes["interior pointers stored as first-class values are opaque: a unit that dereferences one is rejected"] = true
		return t
	}
	panic(engineErr("pointer to a local/field/element is used as a first-class value (unsupported): kind=%d", p.Kind))
}

func (st *State) readRoot(p *Pointer, first *PStep) (Term, types.Type, []PStep) {
	e := st.eng()
	switch p.Kind {
	case RCell:
		v, ok := st.cellVal[p.Cell]
		if !ok {
			panic(engineErr("read of unset cell %s", p.Cell.Name))
		}
		if len(p.Path) > 0 && v.Tm.IsZero() {
			panic(engineErr("projection on a non-term cell %s", p.Cell.Name))
		}
		return v.Tm, p.RootT, p.Path
	case RGlobal:
		return st.heapGet(p.Glob, e.sortOf(p.RootT)), p.RootT, p.Path
	case RElem:
		name, sort := e.memName(p.RootT)
		m := st.heapGet(name, sort)
		return Select(Select(m, p.Ref), p.Idx), p.RootT, p.Path
	case RObj:
		if _, isStruct := types.Unalias(p.RootT).Underlying().(*types.Struct); isStruct {
			if len(p.Path) > 0 && !p.Path[0].IsIdx {
				name, sort := e.fieldHeapName(p.RootT, p.Path[0].Field)
				h := st.heapGet(name, sort)
				ft := types.Unalias(p.RootT).Underlying().(*types.Struct).Field(p.Path[0].Field).Type()
				return Select(h, p.Ref), ft, p.Path[1:]
			}
			// whole struct
			stt := types.Unalias(p.RootT).Underlying().(*types.Struct)
			fs := make([]Term, stt.NumFields())
			for i := range fs {
				name, sort := e.fieldHeapName(p.RootT, i)
				fs[i] = Select(st.heapGet(name, sort), p.Ref)
			}
			return e.mkStruct(p.RootT, fs), p.RootT, p.Path
		}
		name, sort := e.boxName(p.RootT)
		return Select(st.heapGet(name, sort), p.Ref), p.RootT, p.Path
	}
	panic("readRoot")
}

func (st *State) project(t Term, T types.Type, path []PStep) (Term, types.Type) {
	e := st.eng()
	for _, s := range path {
		if s.IsIdx {
			t = Select(t, s.Idx)
			T = elemOf(T)
		} else {
			t = e.structField(T, t, s.Field)
			T = types.Unalias(T).Underlying().(*types.Struct).Field(s.Field).Type()
		}
	}
	return t, T
}

func (st *State) update(t Term, T types.Type, path []PStep, v Term) Term {
	if len(path) == 0 {
		return v
	}
	e := st.eng()
	s := path[0]
	if s.IsIdx {
		inner := Select(t, s.Idx)
		return Store(t, s.Idx, st.update(inner, elemOf(T), path[1:], v))
	}
	ft := types.Unalias(T).Underlying().(*types.Struct).Field(s.Field).Type()
	inner := e.structField(T, t, s.Field)
	return e.structUpdate(T, t, s.Field, st.update(inner, ft, path[1:], v))
}

// load reads through a pointer. The nil check must have been done by the caller.
func (st *State) load(p *Pointer) Value {
	if p.Kind == RCell && len(p.Path) == 0 {
		v, ok := st.cellVal[p.Cell]
		if !ok {
			panic(engineErr("read of unset cell %s", p.Cell.Name))
		}
		return v
	}
	root, T, rest := st.readRoot(p, nil)
	t, T2 := st.project(root, T, rest)
	v := Value{T: T2, Tm: t}
	st.assumeTypeInv(v)
	st.assumeRegion(p, v)
	return v
}

// assumeRegion: region discipline — the backing array of a slice stored in a struct field or a
// global belongs to that field's region; arrays of different regions are disjoint.
func (st *State) assumeRegion(p *Pointer, v Value) {
	if v.T == nil || !isSlice(v.T) {
		return
	}
	var cls string
	switch {
	case p.Kind == RGlobal && len(p.Path) == 0:
		cls = p.Glob
	case p.Kind == RObj && len(p.Path) == 1 && !p.Path[0].IsIdx:
		n, _ := st.eng().fieldHeapName(p.RootT, p.Path[0].Field)
		cls = n
	default:
		return
	}
	e := st.eng()
	id := e.regionID(cls)
	e.assumes["region discipline: backing arrays of slices held in different struct fields / globals are disjoint (assumed at loads, not checked at stores)"] = true
	st.assume(Implies(Ne(SlRef(v.Tm), IntLit(0)), Eq(st.uf("region", SInt, SlRef(v.Tm)), IntLit(int64(id)))))
}

func (st *State) assumeTypeInv(v Value) {
	if v.Tm.IsZero() || v.T == nil {
		return
	}
	inv := st.eng().typeInv(v.T, v.Tm)
	st.assume(inv)
	switch types.Unalias(v.T).Underlying().(type) {
	case *types.Pointer, *types.Map, *types.Chan:
		st.assume(Le(v.Tm, st.alloc))
	case *types.Slice:
		st.assume(Le(SlRef(v.Tm), st.alloc))
	}
}

func (st *State) store(p *Pointer, v Value) {
	e := st.eng()
	if p.Kind == RCell && len(p.Path) == 0 {
		st.cellVal[p.Cell] = v
		return
	}
	var vt Term
	if v.Ptr != nil {
		vt = st.ptrTerm(v)
	} else if v.Clo != nil {
		vt = st.closureTerm(v)
	} else {
		vt = v.Tm
	}
	if vt.IsZero() {
		panic(engineErr("store of a non-term value (tuple?)"))
	}
	switch p.Kind {
	case RCell:
		cur := st.cellVal[p.Cell]
		nt := st.update(cur.Tm, p.RootT, p.Path, vt)
		st.cellVal[p.Cell] = Value{T: p.RootT, Tm: nt}
	case RGlobal:
		sort := e.sortOf(p.RootT)
		cur := st.heapGet(p.Glob, sort)
		st.heapSet(p.Glob, sort, st.update(cur, p.RootT, p.Path, vt))
	case RElem:
		name, sort := e.memName(p.RootT)
		m := st.heapGet(name, sort)
		arr := Select(m, p.Ref)
		cur := Select(arr, p.Idx)
		nv := st.update(cur, p.RootT, p.Path, vt)
		st.heapSet(name, sort, Store(m, p.Ref, Store(arr, p.Idx, nv)))
		st.noteWrite(name, p.Ref)
	case RObj:
		if stt, isStruct := types.Unalias(p.RootT).Underlying().(*types.Struct); isStruct {
			if len(p.Path) > 0 && !p.Path[0].IsIdx {
				name, sort := e.fieldHeapName(p.RootT, p.Path[0].Field)
				h := st.heapGet(name, sort)
				ft := stt.Field(p.Path[0].Field).Type()
				cur := Select(h, p.Ref)
				nv := st.update(cur, ft, p.Path[1:], vt)
				st.heapSet(name, sort, Store(h, p.Ref, nv))
				st.noteWrite(name, p.Ref)
				return
			}
			if len(p.Path) > 0 {
				panic(engineErr("index path on struct object"))
			}
			for i := 0; i < stt.NumFields(); i++ {
				name, sort := e.fieldHeapName(p.RootT, i)
				h := st.heapGet(name, sort)
				st.heapSet(name, sort, Store(h, p.Ref, e.structField(p.RootT, vt, i)))
				st.noteWrite(name, p.Ref)
			}
			return
		}
		name, sort := e.boxName(p.RootT)
		h := st.heapGet(name, sort)
		cur := Select(h, p.Ref)
		nv := st.update(cur, p.RootT, p.Path, vt)
		st.heapSet(name, sort, Store(h, p.Ref, nv))
		st.noteWrite(name, p.Ref)
	}
}

// noteWrite records which objects were written in a heap variable (for frame checks)
func (st *State) noteWrite(name string, ref Term) {
	// currently frame checks are semantic (quantified over refs); nothing to record
}

func (st *State) closureTerm(v Value) Term {
	e := st.eng()
	key := "fn_" + sanitize(v.Clo.Fn.String())
	for _, ce := range st.clos {
		if ce.c == v.Clo {
			return ce.t
		}
	}
	var t Term
	if len(v.Clo.Bindings) > 0 {
		// closure identity: fresh
		t = e.fresh(key, SInt)
	} else {
		t = e.constNamed(key, SInt)
	}
	st.assume(Ne(t, IntLit(0)))
	st.clos = append(st.clos, cloEntry{t, v.Clo})
	return t
}

// resolveClosure: a func value read back from memory that is provably one of the closures created on this path
func (st *State) resolveClosure(fnv Value) *Closure {
	if len(st.clos) == 0 || fnv.Tm.IsZero() || fnv.Tm.Sort != SInt {
		return nil
	}
	var goals []Term
	for _, ce := range st.clos {
		goals = append(goals, Eq(fnv.Tm, ce.t))
	}
	res := st.eng().multiQueryRaw(st.pcSlice(), goals)
	for i, ok := range res {
		if ok {
			return st.clos[i].c
		}
	}
	return nil
}

type EngineError struct{ msg string }

func (e *EngineError) Error() string { return e.msg }
func engineErr(f string, a ...interface{}) *EngineError {
	return &EngineError{fmt.Sprintf(f, a...)}
}
