package main

import (
	"encoding/json"
	"flag"
	"fmt"
	"os"
	"path/filepath"
	"sort"
	"strings"
	"sync"
	"time"

	"golang.org/x/tools/go/ssa"
)

type UnitResult struct {
	Key     string
	Obls    []*Obligation
	Errs    []string
	Paths   int
	Eng     *Engine
	Seconds float64
	Spec    *FuncSpec
}

type Config struct {
	Repo      string
	Verif     string
	Prop      string
	Tier      string
	Funcs     []string
	Verbose   bool
	Seed      int
	TimeoutMs int
	Workers   int
	Overlay   map[string][]byte
	Patterns  []string
}

func loadSpecs(cfg *Config, ld *Loaded) (*SpecDB, error) {
	db := NewSpecDB()
	ext, _ := filepath.Glob(filepath.Join(cfg.Verif, "contracts", "*.spec"))
	sort.Strings(ext)
	for _, f := range ext {
		if err := db.LoadFile(f, "prelude"); err != nil {
			return nil, err
		}
	}
	for _, f := range ld.contractFiles() {
		if err := db.LoadFile(f, ""); err != nil {
			return nil, err
		}
	}
	return db, nil
}

func hasProp(props []string, p string) bool {
	for _, x := range props {
		if x == p {
			return true
		}
	}
	return false
}

func runUnits(cfg *Config, ld *Loaded, db *SpecDB, keys []string) []*UnitResult {
	results := make([]*UnitResult, len(keys))
	var wg sync.WaitGroup
	sem := make(chan struct{}, cfg.Workers)
	for i, k := range keys {
		i, k := i, k
		wg.Add(1)
		go func() {
			defer wg.Done()
			sem <- struct{}{}
			defer func() { <-sem }()
			t0 := time.Now()
			eng := NewEngine(ld, db)
			eng.tier = cfg.Tier
			eng.timeoutMs = cfg.TimeoutMs
			eng.seed = cfg.Seed
			fn := ld.byKey[k]
			res := &UnitResult{Key: k, Eng: eng, Spec: db.Funcs[k]}
			results[i] = res
			if fn == nil {
				res.Errs = append(res.Errs, "contract target missing: no function "+k+" in the loaded packages")
				return
			}
			u := eng.NewUnit(fn, db.Funcs[k])
			if res.Spec != nil && res.Spec.Flags["nosafety"] != "" {
				u.safety = false
			}
			func() {
				defer func() {
					if r := recover(); r != nil {
						if ee, ok := r.(*EngineError); ok {
							u.errs = append(u.errs, ee.msg)
							return
						}
						panic(r)
					}
				}()
				// loop-count cross-check
				if n := ld.astLoopCount(fn); n >= 0 {
					if m := len(eng.loopsOf(fn)); m != n {
						// loops whose body always exits (no back edge) are not loops in the CFG
						if m > n {
							u.errs = append(u.errs, fmt.Sprintf("loop count mismatch: %d CFG loops vs %d for/range statements", m, n))
						}
					}
					if res.Spec != nil {
						for ord := range res.Spec.Loops {
							if ord < 1 {
								u.errs = append(u.errs, fmt.Sprintf("contract names loop %d", ord))
							} else if ord > len(eng.loopsOf(fn)) {
								u.orphanLoops = append(u.orphanLoops, ord) // may be adopted by the loop of an inlined helper
							}
						}
						sort.Ints(u.orphanLoops)
					}
				}
				u.Run()
				if len(u.errs) == 0 {
					adoptedOrds := map[int]bool{}
					for _, ord := range u.adopted {
						adoptedOrds[ord] = true
					}
					for _, ord := range u.orphanLoops {
						if adoptedOrds[ord] {
							continue
						}
						// the loop is gone (e.g. replaced by a library call). Clauses that only HELPED a proof - unlabelled
						// invariants, ghost assignments - go with it; a labelled clause, a step clause or a termination
						// measure was a claim about the loop and is reported
						ls := res.Spec.Loops[ord]
						claims := len(ls.Steps) > 0 || len(ls.Foreach) > 0 || ls.Decreases != nil
						for _, c := range ls.Invariants {
							if c.Label != "" {
								claims = true
							}
						}
						if claims {
							u.errs = append(u.errs, fmt.Sprintf("contract names loop %d but the function has %d loops", ord, len(eng.loopsOf(fn))))
						} else {
							fmt.Printf("NOTE: %s: the contract's helper invariants for loop %d were dropped: the function has %d loops\n", k, ord, len(eng.loopsOf(fn)))
						}
					}
				}
			}()
			if cfg.Verbose {
				for l, names := range u.inferred {
					fmt.Printf("  inferred %s %s: %s\n", k, l, strings.Join(names, " ; "))
				}
			}
			if res.Spec != nil && u.houdini == nil {
				for callee := range res.Spec.Before {
					if !u.beforeHit[callee] && len(u.errs) == 0 {
						u.errs = append(u.errs, "spec: 'before "+callee+"' names a call the function does not make")
					}
				}
			}
			if res.Spec != nil && len(res.Spec.Wakes) > 0 && !u.wakesHit && len(u.errs) == 0 && u.houdini == nil {
				u.errs = append(u.errs, "spec: 'wakes' clause but the function has no blocking select")
			}
			for c, msg := range u.droppedInv {
				fmt.Printf("NOTE: %s: helper invariant of loop %d no longer applies to the code and was dropped (%s): %s\n", k, c.Loop, msg, trunc(c.Text, 120))
			}
			res.Obls = u.obls
			res.Errs = append(res.Errs, u.errs...)
			res.Paths = u.paths
			res.Seconds = time.Since(t0).Seconds()
		}()
	}
	wg.Wait()
	return results
}

// obligations proved only by stage 4 of Discharge (second attempt, four times the budget); reported in the evidence
var retriedObls = map[string]bool{}

func dischargeAll(cfg *Config, results []*UnitResult) {
	type job struct {
		o   *Obligation
		eng *Engine
	}
	var jobs []job
	for _, r := range results {
		for _, o := range r.Obls {
			jobs = append(jobs, job{o, r.Eng})
		}
	}
	knownOpen := map[string]bool{}
	for _, k := range loadKnownFindings(cfg).entries {
		if k.Status != "fixed" {
			knownOpen[k.Obligation] = true
		}
	}
	var wg sync.WaitGroup
	ch := make(chan job)
	for w := 0; w < cfg.Workers; w++ {
		wg.Add(1)
		go func() {
			defer wg.Done()
			for j := range ch {
				q := &Query{Name: j.o.Unit.key + "/" + j.o.Name, Decls: j.eng.decls, Asserts: j.o.Asserts, Goal: j.o.Goal}
				// obligations that are expected to fail (canaries, open known findings) do not get the long second attempt
				q.NoRetry = j.o.Canary || knownOpen[q.Name]
				j.o.Result = Discharge(q, cfg.TimeoutMs, cfg.Seed)
			}
		}()
	}
	for _, j := range jobs {
		ch <- j
	}
	close(ch)
	wg.Wait()
}

func main() {
	cfg := &Config{}
	var funcs string
	flag.StringVar(&cfg.Repo, "repo", "/repo", "repository")
	flag.StringVar(&cfg.Verif, "verif", "/verif", "verif dir")
	flag.StringVar(&cfg.Prop, "prop", "", "property id")
	flag.StringVar(&cfg.Tier, "tier", "quick", "quick|thorough")
	flag.StringVar(&funcs, "func", "", "comma-separated function keys (debug)")
	flag.BoolVar(&cfg.Verbose, "v", false, "verbose")
	flag.IntVar(&cfg.Seed, "seed", 0, "seed")
	flag.IntVar(&cfg.TimeoutMs, "timeout", 10000, "per-obligation timeout (ms)")
	flag.IntVar(&cfg.Workers, "j", 16, "workers")
	flag.BoolVar(&keepSMT, "keep", false, "keep SMT files of discharged obligations")
	var pats string
	flag.StringVar(&pats, "pkgs", "./...", "package patterns")
	var selftest string
	flag.StringVar(&selftest, "selftest", "", "run the must-fail corpus: directory of mutants")
	var replayPath string
	flag.StringVar(&replayPath, "replay", "", "replay file")
	flag.Parse()
	if funcs != "" {
		cfg.Funcs = strings.Split(funcs, ",")
	}
	cfg.Patterns = strings.Fields(pats)
	outDir = filepath.Join(cfg.Verif, "out")
	if s := os.Getenv("VERIF_SEED"); s != "" {
		fmt.Sscan(s, &cfg.Seed)
	}
	if cfg.Tier == "thorough" && cfg.TimeoutMs == 10000 {
		cfg.TimeoutMs = 60000
	}
	if replayPath != "" {
		os.Exit(replayMain(cfg, replayPath))
	}
	if selftest != "" {
		os.Exit(selftestMain(cfg, selftest))
	}
	rc := checkMain(cfg)
	os.Remove(smtDir()) // only if empty: the query files of failed obligations stay (the replay files name them)
	os.Exit(rc)
}

func checkMain(cfg *Config) int {
	t0 := time.Now()
	ld, err := LoadRepo(cfg.Repo, cfg.Patterns, cfg.Overlay)
	if err != nil {
		fmt.Println("UNDECIDED: cannot load repository:", err)
		return 2
	}
	db, err := loadSpecs(cfg, ld)
	if err != nil {
		fmt.Println("UNDECIDED: contract error:", err)
		return 2
	}
	loadS := time.Since(t0).Seconds()
	var keys []string
	if len(cfg.Funcs) > 0 {
		keys = cfg.Funcs
	} else {
		for k, fs := range db.Funcs {
			if fs.Extern {
				continue
			}
			if _, isFn := ld.byKey[k]; !isFn && fs.Flags["fnspec"] != "" {
				continue
			}
			if fs.Flags["fnspec"] != "" || fs.Flags["iface"] != "" {
				continue
			}
			if fs.Flags["inline"] != "" || fs.Flags["trusted"] != "" {
				// inline: clauses (loop invariants) for a closure that is executed in its caller's context;
				// trusted: a contract on a repository function that is used at call sites but not verified (reported)
				continue
			}
			if cfg.Prop == "" || hasProp(fs.Props, cfg.Prop) {
				keys = append(keys, k)
			}
		}
		sort.Strings(keys)
	}
	results := runUnits(cfg, ld, db, keys)
	genS := time.Since(t0).Seconds() - loadS
	dischargeAll(cfg, results)
	return report(cfg, ld, db, results, loadS, genS, time.Since(t0).Seconds())
}

// ---------------------------------------------------------------------------------------------

// propKinds restricts a property's check to obligation kinds (nil = all kinds)
var propKinds = map[string]map[string]bool{
	"C07": {"index": true, "slice": true, "nil": true, "div0": true, "typeassert": true, "panic": true, "overflow": true, "writable": true,
		"closed": true, "nonblocking": true, "pre@callsite": true, "loop-init": true, "loop-step": true, "decreases": true, "crash": true},
}

type oblSummary struct {
	Name      string
	Kind      string
	Instances int
	Failed    []*Obligation
	Props     []string
	Canary    bool
	Seconds   float64
	Solvers   map[string]int
	Pos       string
}

func report(cfg *Config, ld *Loaded, db *SpecDB, results []*UnitResult, loadS, genS, totalS float64) int {
	exit := 0
	byName := map[string]*oblSummary{}
	var order []string
	var engineErrs []string
	funcs := []string{}
	assumptions := map[string]bool{}
	trusted := map[string]bool{}
	unmod := map[string]bool{}
	inlined := map[string]bool{}
	paths := 0
	for _, r := range results {
		funcs = append(funcs, r.Key)
		paths += r.Paths
		for _, e := range r.Errs {
			engineErrs = append(engineErrs, r.Key+": "+e)
		}
		for k := range r.Eng.assumes {
			assumptions[k] = true
		}
		for k := range r.Eng.trusted {
			trusted[k] = true
		}
		for k := range r.Eng.unmod {
			unmod[k] = true
		}
		for k := range r.Eng.inlined {
			inlined[k] = true
		}
		// disambiguate names by source position
		posOf := map[string][]int{}
		for _, o := range r.Obls {
			p := int(o.Pos)
			found := false
			for _, q := range posOf[o.Name] {
				if q == p {
					found = true
				}
			}
			if !found {
				posOf[o.Name] = append(posOf[o.Name], p)
			}
		}
		for _, ps := range posOf {
			sort.Ints(ps)
		}
		for _, o := range r.Obls {
			name := r.Key + "/" + o.Name
			if ps := posOf[o.Name]; len(ps) > 1 && (o.Kind != "post" && o.Kind != "frame" && o.Kind != "canary") {
				for i, p := range ps {
					if p == int(o.Pos) && i > 0 {
						name = fmt.Sprintf("%s#%d", name, i+1)
					}
				}
			}
			s := byName[name]
			if s == nil {
				s = &oblSummary{Name: name, Kind: o.Kind, Canary: o.Canary, Solvers: map[string]int{}, Pos: ld.posText(o.Pos)}
				byName[name] = s
				order = append(order, name)
			}
			s.Instances++
			s.Seconds += o.Result.Seconds
			s.Solvers[o.Result.Solver]++
			if o.Result.Retried {
				retriedObls[name] = true
			}
			if o.Result.Status != "unsat" {
				s.Failed = append(s.Failed, o)
			}
		}
	}
	known := loadKnownFindings(cfg)
	discharged := 0
	total := 0
	var violations []string
	var knownHits []string
	canaryBad := 0
	for _, name := range order {
		s := byName[name]
		if ks := propKinds[cfg.Prop]; ks != nil && len(cfg.Funcs) == 0 && !ks[s.Kind] && !strings.Contains(s.Name, "/"+cfg.Prop+":") {
			// (a functional clause written FOR the sweep property carries its id as label prefix, e.g. ensures[C07:...])
			// sweep properties (no panic): only the safety obligations of the tagged units belong to the property; their
			// functional postconditions are decided under the properties they are written for
			continue
		}
		if s.Canary {
			// a canary must fail on at least one path
			if len(s.Failed) == 0 {
				canaryBad++
				engineErrs = append(engineErrs, "canary discharged (engine or contract vacuous): "+name)
			}
			continue
		}
		total++
		if len(s.Failed) == 0 {
			discharged++
			if cfg.Verbose {
				fmt.Printf("  ok   %s (%d paths, %.2fs)\n", name, s.Instances, s.Seconds)
			}
			continue
		}
		if s.Kind == "frame" {
			// a write to a struct field that no contract mentions cannot invalidate any contract-based reasoning:
			// reported as a note, not as a violation (guards against alarms on harmless edits)
			ff := s.Failed[0].FrameField
			if ff != "" && !db.mentionsWord(ff) {
				fmt.Printf("NOTE: %s: write outside the modifies clause to field %q, which no contract mentions (ignored)\n", name, ff)
				discharged++
				continue
			}
		}
		if kf := known.matchOther(cfg.Prop, name); kf != nil && known.match(cfg.Prop, name) == nil {
			// a finding recorded under another property, met because its unit is also tagged with this one: it is that
			// property's finding, not a violation of this one (printed as a note, not counted)
			fmt.Printf("NOTE: %s fails and is recorded as a known finding of property %s (not counted under %s)\n", name, kf.Property, cfg.Prop)
			total--
			continue
		}
		if kf := known.match(cfg.Prop, name); kf != nil {
			knownHits = append(knownHits, fmt.Sprintf("KNOWN-FINDING: property=%s %s — %s", cfg.Prop, name, kf.What))
			kf.hit = true
			if cfg.Tier == "thorough" {
				// thorough: re-confirm the finding on the real code
				rp := writeReplay(cfg, ld, name, s.Failed[0])
				if tryReplay(cfg, ld, rp) {
					fmt.Printf("  (known finding re-confirmed by replay: %s)\n", rp)
				}
			}
			continue
		}
		// violation: write replay file, try to replay on the real code
		o := s.Failed[0]
		rp := writeReplay(cfg, ld, name, o)
		confirmed := tryReplay(cfg, ld, rp)
		line := fmt.Sprintf("VIOLATION property=%s replay=%s", cfg.Prop, rp)
		if !confirmed {
			line += " no-failing-input-found"
		}
		violations = append(violations, line)
		fmt.Printf("FAILED obligation %s [%s at %s] status=%s solver=%s\n", name, s.Kind, s.Pos, o.Result.Status, o.Result.Solver)
		if cfg.Verbose {
			for _, t := range o.Trace {
				fmt.Println("      path:", t)
			}
		}
	}
	for _, l := range knownHits {
		fmt.Println(l)
	}
	for _, kf := range known.entries {
		if kf.Property == cfg.Prop && !kf.hit && kf.Status != "fixed" && len(cfg.Funcs) == 0 {
			// a listed finding that no longer fails: report (not an error)
			fmt.Printf("NOTE: known finding no longer fails: %s\n", kf.Obligation)
		}
	}
	for i, e := range engineErrs {
		fmt.Println("UNDECIDED:", e)
		exit = 2
		// A contract clause that can no longer be evaluated on the code (it names a local, loop or function the source
		// no longer has) leaves its obligation unproved: reported as a violation of that clause, with the message as
		// the reason. Engine limits (unsupported constructs) stay undecided.
		if strings.Contains(e, ": spec: ") || strings.Contains(e, "contract target missing") || strings.Contains(e, "contract names loop") {
			unit := e
			if j := strings.Index(e, ": "); j >= 0 {
				unit = e[:j]
			}
			name := unit + "/contract/no longer applies to the code"
			dir := filepath.Join(cfg.Verif, "replays", cfg.Prop)
			os.MkdirAll(dir, 0o755)
			rp := filepath.Join(dir, sanitize(name)+fmt.Sprintf("_%d.json", i)+"")
			rf := &ReplayFile{Property: cfg.Prop, Obligation: name, Kind: "contract", Function: unit, Status: "not-generated", SolverOut: e}
			data, _ := json.MarshalIndent(rf, "", " ")
			os.WriteFile(rp, data, 0o644)
			fmt.Printf("FAILED obligation %s [contract] %s\n", name, trunc(e, 200))
			violations = append(violations, fmt.Sprintf("VIOLATION property=%s replay=%s no-failing-input-found", cfg.Prop, rp))
		}
	}
	for _, v := range violations {
		fmt.Println(v)
	}
	if len(violations) > 0 {
		exit = 1
	}
	if total == 0 && exit == 0 {
		fmt.Println("UNDECIDED: no obligations were generated (vacuous check)")
		exit = 2
	}
	fmt.Printf("property=%s tier=%s functions=%d paths=%d obligations=%d discharged=%d known=%d violations=%d errors=%d load=%.1fs gen=%.1fs total=%.1fs\n",
		cfg.Prop, cfg.Tier, len(funcs), paths, total, discharged, len(knownHits), len(violations), len(engineErrs), loadS, genS, totalS)
	if cfg.Prop != "" && len(cfg.Funcs) == 0 {
		writeEvidence(cfg, funcs, byName, order, total, discharged, len(knownHits), len(violations), engineErrs, assumptions, trusted, unmod, inlined, paths, totalS, knownHits)
	}
	return exit
}

type knownFinding struct {
	Property   string `json:"property"`
	Obligation string `json:"obligation"`
	What       string `json:"what_fails"`
	Input      string `json:"input_class"`
	Status     string `json:"status,omitempty"`
	Commit     string `json:"commit,omitempty"`
	hit        bool
}

type knownDB struct{ entries []*knownFinding }

func loadKnownFindings(cfg *Config) *knownDB {
	db := &knownDB{}
	data, err := os.ReadFile(filepath.Join(cfg.Verif, "known_findings.json"))
	if err != nil {
		return db
	}
	var f struct {
		Findings []*knownFinding `json:"findings"`
	}
	if err := json.Unmarshal(data, &f); err != nil {
		fmt.Println("UNDECIDED: known_findings.json unreadable:", err)
		return db
	}
	db.entries = f.Findings
	return db
}

func (db *knownDB) match(prop, obl string) *knownFinding {
	for _, k := range db.entries {
		if k.Status == "fixed" {
			continue
		}
		if k.Property == prop && k.Obligation == obl {
			return k
		}
	}
	return nil
}

func (db *knownDB) matchOther(prop, obl string) *knownFinding {
	for _, k := range db.entries {
		if k.Status != "fixed" && k.Property != prop && k.Obligation == obl {
			return k
		}
	}
	return nil
}

func writeEvidence(cfg *Config, funcs []string, byName map[string]*oblSummary, order []string, total, discharged, known, violations int, errs []string,
	assumptions, trusted, unmod, inlined map[string]bool, paths int, wall float64, knownHits []string) {
	solverMu.Lock()
	backends := map[string]interface{}{}
	for k, v := range solverTotals {
		backends[k] = map[string]interface{}{"queries": v.N, "seconds": round2(v.Seconds)}
	}
	solverMu.Unlock()
	var samples []interface{}
	n := 0
	for _, name := range order {
		s := byName[name]
		if s.Canary {
			continue
		}
		if n%((len(order)/8)+1) == 0 && len(samples) < 10 {
			st := "discharged"
			if len(s.Failed) > 0 {
				st = "failed"
			}
			samples = append(samples, map[string]interface{}{"obligation": name, "kind": s.Kind, "path_instances": s.Instances, "status": st, "solver_seconds": round2(s.Seconds), "at": s.Pos})
		}
		n++
	}
	kinds := map[string]int{}
	for _, name := range order {
		if !byName[name].Canary {
			kinds[byName[name].Kind]++
		}
	}
	var as []string
	for k := range assumptions {
		as = append(as, k)
	}
	as = append(as, "signed integer arithmetic is treated as mathematical (no overflow) except in functions flagged 'overflow'; unsigned arithmetic and conversions wrap exactly")
	as = append(as, "each goroutine body is verified sequentially; interleavings with other goroutines are not explored")
	for k := range trusted {
		as = append(as, "trusted contract: "+k)
	}
	for k := range unmod {
		as = append(as, "unmodelled call (results arbitrary, one level of argument memory havocked): "+k)
	}
	sort.Strings(as)
	var inl []string
	for k := range inlined {
		inl = append(inl, k)
	}
	sort.Strings(inl)
	sort.Strings(funcs)
	ev := map[string]interface{}{
		"property_id": cfg.Prop,
		"tier":        cfg.Tier,
		"seed":        cfg.Seed,
		"level":       "proof",
		"coverage": map[string]interface{}{
			"obligations":              total,
			"discharged":               discharged + known,
			"discharged_by_solver":     discharged,
			"known_findings":           known,
			"known_finding_lines":      knownHits,
			"violations":               violations,
			"checker_cmd":              fmt.Sprintf("/verif/bin/govc -prop %s -tier %s", cfg.Prop, cfg.Tier),
			"trusted_base":             []string{"go/types + go/ssa (x/tools v0.29.0) as the semantics front end", "govc symbolic executor and SMT encoding (/verif/govc)", "SMT solvers z3 4.8.12, z3 5.1.0 (z3-new), cvc5 1.0", "external contract catalogue /verif/contracts/*.spec"},
			"functions_under_contract": funcs,
			"functions_inlined":        inl,
			"paths":                    paths,
			"obligation_kinds":         kinds,
			"backends":                 backends,
			"samples":                  samples,
			"engine_errors":            errs,
			"discharged_only_in_the_second_attempt_with_4x_budget": len(retriedObls),
		},
		"assumptions": as,
		"wall_s":      round2(wall),
		"violations":  violations,
	}
	os.MkdirAll(filepath.Join(cfg.Verif, "evidence"), 0o755)
	data, _ := json.MarshalIndent(ev, "", " ")
	os.WriteFile(filepath.Join(cfg.Verif, "evidence", cfg.Prop+".json"), data, 0o644)
}

func round2(f float64) float64 { return float64(int(f*100+0.5)) / 100 }

var _ = ssa.NaiveForm
