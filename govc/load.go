package main

import (
	"bytes"
	"fmt"
	"go/ast"
	"go/printer"
	"go/token"
	"go/types"
	"os"
	"path/filepath"
	"sort"
	"strings"

	"golang.org/x/tools/go/packages"
	"golang.org/x/tools/go/ssa"
	"golang.org/x/tools/go/ssa/ssautil"
)

type Loaded struct {
	fset    *token.FileSet
	prog    *ssa.Program
	pkgs    []*packages.Package
	ssaPkgs []*ssa.Package
	byKey   map[string]*ssa.Function // pkgname.Recv.Name → function
	keyOf   map[*ssa.Function]string
	exprAt  map[token.Pos]ast.Expr // Lbrack pos → index/slice expr; Lparen → call; etc
	pkgByNm map[string]*packages.Package
	repoDir string
	funcAST map[*ssa.Function]ast.Node
	typesPkgs []*types.Package
}

const repoModule = "github.com/relex/slog-agent"

func LoadRepo(dir string, patterns []string, overlay map[string][]byte) (*Loaded, error) {
	cfg := &packages.Config{
		Mode: packages.NeedName | packages.NeedFiles | packages.NeedCompiledGoFiles | packages.NeedTypes | packages.NeedSyntax |
			packages.NeedTypesInfo | packages.NeedDeps | packages.NeedImports | packages.NeedTypesSizes | packages.NeedModule,
		Dir:        dir,
		BuildFlags: []string{"-tags=verif"},
		Env:        append(os.Environ(), "GOFLAGS=-mod=mod", "GOPROXY=off", "GOSUMDB=off", "GOTOOLCHAIN=local"),
		Overlay:    overlay,
	}
	pkgs, err := packages.Load(cfg, patterns...)
	if err != nil {
		return nil, err
	}
	var errs []string
	packages.Visit(pkgs, nil, func(p *packages.Package) {
		if strings.HasPrefix(p.PkgPath, repoModule) {
			for _, e := range p.Errors {
				errs = append(errs, e.Error())
			}
		}
	})
	if len(errs) > 0 {
		return nil, fmt.Errorf("load errors:\n%s", strings.Join(errs, "\n"))
	}
	prog, spkgs := ssautil.AllPackages(pkgs, ssa.NaiveForm|ssa.GlobalDebug|ssa.InstantiateGenerics)
	ld := &Loaded{fset: prog.Fset, prog: prog, pkgs: pkgs, byKey: map[string]*ssa.Function{}, keyOf: map[*ssa.Function]string{},
		exprAt: map[token.Pos]ast.Expr{}, pkgByNm: map[string]*packages.Package{}, repoDir: dir, funcAST: map[*ssa.Function]ast.Node{}}
	// build only repo packages (bodies of dependencies are not needed)
	seen := map[*packages.Package]bool{}
	var repoPkgs []*packages.Package
	packages.Visit(pkgs, nil, func(p *packages.Package) {
		if strings.HasPrefix(p.PkgPath, repoModule) && !seen[p] {
			seen[p] = true
			repoPkgs = append(repoPkgs, p)
		}
	})
	_ = spkgs
	for _, p := range repoPkgs {
		sp := prog.Package(p.Types)
		if sp == nil {
			continue
		}
		sp.Build()
		ld.ssaPkgs = append(ld.ssaPkgs, sp)
		ld.pkgByNm[p.Name] = p
		for _, f := range p.Syntax {
			ast.Inspect(f, func(n ast.Node) bool {
				switch x := n.(type) {
				case *ast.IndexExpr:
					ld.exprAt[x.Lbrack] = x
				case *ast.SliceExpr:
					ld.exprAt[x.Lbrack] = x
				case *ast.CallExpr:
					ld.exprAt[x.Lparen] = x
				case *ast.StarExpr:
					ld.exprAt[x.Star] = x
				case *ast.SelectorExpr:
					ld.exprAt[x.Sel.Pos()] = x
				case *ast.BinaryExpr:
					ld.exprAt[x.OpPos] = x
				case *ast.TypeAssertExpr:
					ld.exprAt[x.Lparen] = x
				}
				return true
			})
		}
	}
	ld.allTypesPkgs()
	// index functions
	for _, sp := range ld.ssaPkgs {
		for _, m := range sp.Members {
			switch x := m.(type) {
			case *ssa.Function:
				ld.indexFunc(x)
			case *ssa.Type:
				T := x.Type()
				for _, tt := range []types.Type{T, types.NewPointer(T)} {
					ms := prog.MethodSets.MethodSet(tt)
					for i := 0; i < ms.Len(); i++ {
						f := prog.MethodValue(ms.At(i))
						if f != nil && f.Pkg == sp {
							ld.indexFunc(f)
						}
					}
				}
			}
		}
	}
	// instances of generic functions and methods of the repo (created on demand by InstantiateGenerics)
	inRepo := map[*types.Package]bool{}
	for _, sp := range ld.ssaPkgs {
		inRepo[sp.Pkg] = true
	}
	var insts []*ssa.Function
	for f := range ssautil.AllFunctions(prog) {
		if o := f.Origin(); o != nil && o != f && f.Blocks != nil && o.Pkg != nil && inRepo[o.Pkg.Pkg] {
			insts = append(insts, f)
		}
	}
	sort.Slice(insts, func(i, j int) bool { return insts[i].String() < insts[j].String() })
	for _, f := range insts {
		ld.indexFunc(f)
	}
	return ld, nil
}

func (ld *Loaded) indexFunc(f *ssa.Function) {
	if _, ok := ld.keyOf[f]; ok {
		return
	}
	if f.Synthetic != "" && f.Blocks == nil {
		return
	}
	key := FuncKey(f)
	if key == "" {
		return
	}
	if f.Synthetic != "" && strings.HasPrefix(f.Synthetic, "wrapper") {
		return
	}
	if old := ld.byKey[key]; old != nil && old != f {
		// generic instances etc: keep first
		return
	}
	ld.byKey[key] = f
	ld.keyOf[f] = key
	for _, af := range f.AnonFuncs {
		ld.indexFunc(af)
	}
}

// FuncKey gives pkgname.Recv.Name (closures: parent$N)
func FuncKey(f *ssa.Function) string {
	if f.Parent() != nil {
		pk := FuncKey(f.Parent())
		name := f.Name()
		if i := strings.LastIndexByte(name, '$'); i >= 0 {
			return pk + name[i:]
		}
		return pk + "$" + name
	}
	pkgName := ""
	if f.Pkg != nil {
		pkgName = f.Pkg.Pkg.Name()
	} else if f.Object() != nil && f.Object().Pkg() != nil {
		pkgName = f.Object().Pkg().Name()
	}
	name := f.Name()
	if o := f.Origin(); o != nil {
		name = o.Name()
	}
	if f.Signature.Recv() != nil {
		rt := f.Signature.Recv().Type()
		if p, ok := rt.(*types.Pointer); ok {
			rt = p.Elem()
		}
		rt = types.Unalias(rt)
		if n, ok := rt.(*types.Named); ok {
			return pkgName + "." + n.Obj().Name() + "." + name
		}
		return pkgName + "." + sanitize(rt.String()) + "." + name
	}
	return pkgName + "." + name
}

func (ld *Loaded) exprText(e ast.Node) string {
	var buf bytes.Buffer
	printer.Fprint(&buf, ld.fset, e)
	s := buf.String()
	s = strings.Join(strings.Fields(s), " ")
	if len(s) > 80 {
		s = s[:77] + "..."
	}
	return s
}

func (ld *Loaded) posText(p token.Pos) string {
	if !p.IsValid() {
		return ""
	}
	pos := ld.fset.Position(p)
	rel, err := filepath.Rel(ld.repoDir, pos.Filename)
	if err != nil {
		rel = pos.Filename
	}
	return fmt.Sprintf("%s:%d", rel, pos.Line)
}

// contractFiles lists verif_contracts*.go files of the loaded repo packages.
func (ld *Loaded) contractFiles() []string {
	var out []string
	seen := map[string]bool{}
	for _, sp := range ld.ssaPkgs {
		for _, p := range ld.pkgs {
			_ = p
		}
		_ = sp
	}
	packages.Visit(ld.pkgs, nil, func(p *packages.Package) {
		if !strings.HasPrefix(p.PkgPath, repoModule) {
			return
		}
		for _, f := range p.CompiledGoFiles {
			b := filepath.Base(f)
			if strings.HasPrefix(b, "verif_contracts") && strings.HasSuffix(b, ".go") && !seen[f] {
				seen[f] = true
				out = append(out, f)
			}
		}
	})
	sort.Strings(out)
	return out
}

// astLoopCount counts for/range statements in the function's own body (not in nested func literals).
func (ld *Loaded) astLoopCount(f *ssa.Function) int {
	syn := f.Syntax()
	if syn == nil {
		return -1
	}
	var body *ast.BlockStmt
	switch x := syn.(type) {
	case *ast.FuncDecl:
		body = x.Body
	case *ast.FuncLit:
		body = x.Body
	}
	if body == nil {
		return -1
	}
	n := 0
	ast.Inspect(body, func(nd ast.Node) bool {
		switch nd.(type) {
		case *ast.FuncLit:
			return false
		case *ast.ForStmt, *ast.RangeStmt:
			n++
		}
		return true
	})
	return n
}

func (ld *Loaded) allTypesPkgs() []*types.Package {
	if ld.typesPkgs != nil {
		return ld.typesPkgs
	}
	packages.Visit(ld.pkgs, nil, func(p *packages.Package) {
		if p.Types != nil {
			ld.typesPkgs = append(ld.typesPkgs, p.Types)
		}
	})
	return ld.typesPkgs
}
