package main

// Maps, channels, select, range.

import (
	"go/token"
	"go/types"

	"golang.org/x/tools/go/ssa"
)

type heapName struct {
	name string
	sort Sort
}

func (e *Engine) mapKeySort(mt *types.Map) Sort {
	if isString(mt.Key()) {
		return SInt
	}
	return e.sortOf(mt.Key())
}

func (e *Engine) mapHeapNames(mt *types.Map) []heapName {
	ks := e.mapKeySort(mt)
	vs := e.sortOf(mt.Elem())
	sfx := sanitize(string(ks)) + "_" + sanitize(string(vs))
	if isString(mt.Key()) {
		sfx = "str_" + sanitize(string(vs))
	}
	return []heapName{
		{"MD_" + sfx, ArraySort(SInt, ArraySort(ks, SBool))},
		{"MV_" + sfx, ArraySort(SInt, ArraySort(ks, vs))},
		{"ML_" + sfx, ArraySort(SInt, SInt)},
	}
}

func (st *State) mapKeyTerm(k Value, mt *types.Map) Term {
	if !isString(mt.Key()) {
		return k.Tm
	}
	return st.strKey(k.Tm)
}

// strKey: the abstract map key of a string; key(s) == key(t) <=> s == t (content) is asserted for
// every pair of key strings occurring on the path.
func (st *State) strKey(ktm Term) Term {
	k := Value{Tm: ktm}
	key := st.uf("skey", SInt, k.Tm)
	// key(s) == key(t) <=> s == t for the keys occurring on this path
	for _, o := range st.strKeys {
		if o.S == k.Tm.S {
			return key
		}
	}
	for _, o := range st.strKeys {
		st.assume(Eq(st.strEq(k.Tm, o), Eq(key, st.uf("skey", SInt, o))))
	}
	st.strKeys = append(append([]Term{}, st.strKeys...), k.Tm)
	return key
}

func (st *State) mapHeaps(mt *types.Map) (dom, val, ln Term, hn []heapName) {
	hn = st.eng().mapHeapNames(mt)
	return st.heapGet(hn[0].name, hn[0].sort), st.heapGet(hn[1].name, hn[1].sort), st.heapGet(hn[2].name, hn[2].sort), hn
}

func (st *State) makeMap(x *ssa.MakeMap) Value {
	e := st.eng()
	mt := types.Unalias(x.Type()).Underlying().(*types.Map)
	ref := st.newRef()
	dom, _, ln, hn := st.mapHeaps(mt)
	_, ds := splitArraySort(hn[0].sort)
	st.heapSet(hn[0].name, hn[0].sort, Store(dom, ref, constArray(ds, TFalse)))
	st.heapSet(hn[2].name, hn[2].sort, Store(ln, ref, IntLit(0)))
	_ = e
	return Value{T: x.Type(), Tm: ref}
}

func (st *State) mapUpdate(x *ssa.MapUpdate) {
	m := st.val(x.Map)
	k := st.val(x.Key)
	v := st.val(x.Value)
	mt := types.Unalias(m.T).Underlying().(*types.Map)
	st.check("nil", "assignment to entry in nil map: "+st.textAt(x.Pos(), "map update"), x.Pos(), Ne(m.Tm, IntLit(0)))
	if fs := st.frame.spec; fs != nil && fs.Flags["permanentkeys"] != "" && isString(mt.Key()) && !k.Tm.IsZero() {
		// a map keeps its key for as long as the entry lives: a key that is a view of memory somebody else rewrites (a
		// field value in a pooled record buffer) silently corrupts the map when that memory is recycled
		st.check("sharedkey", "map key must be a permanent copy: "+st.textAt(x.Pos(), "map update"), x.Pos(), Ne(StrOwn(k.Tm), IntLit(1)))
	}
	kt := st.mapKeyTerm(k, mt)
	dom, val, ln, hn := st.mapHeaps(mt)
	vt := v.Tm
	if v.Ptr != nil {
		vt = st.ptrTerm(v)
	} else if v.Clo != nil {
		vt = st.closureTerm(v)
	}
	d := Select(dom, m.Tm)
	st.heapSet(hn[2].name, hn[2].sort, Store(ln, m.Tm, Ite(Select(d, kt), Select(ln, m.Tm), Add(Select(ln, m.Tm), IntLit(1)))))
	st.heapSet(hn[0].name, hn[0].sort, Store(dom, m.Tm, Store(d, kt, TTrue)))
	st.heapSet(hn[1].name, hn[1].sort, Store(val, m.Tm, Store(Select(val, m.Tm), kt, vt)))
}

func (st *State) mapDelete(m Value, k Value) {
	mt := types.Unalias(m.T).Underlying().(*types.Map)
	kt := st.mapKeyTerm(k, mt)
	dom, _, ln, hn := st.mapHeaps(mt)
	d := Select(dom, m.Tm)
	st.heapSet(hn[2].name, hn[2].sort, Store(ln, m.Tm, Ite(Select(d, kt), Sub(Select(ln, m.Tm), IntLit(1)), Select(ln, m.Tm))))
	st.heapSet(hn[0].name, hn[0].sort, Store(dom, m.Tm, Store(d, kt, TFalse)))
}

// mapGet: m[k] in specs and code (zero value when absent)
func (st *State) mapGet(m Value, k Value, mt *types.Map) Value {
	e := st.eng()
	kt := st.mapKeyTerm(k, mt)
	dom, val, _, _ := st.mapHeaps(mt)
	in := And(Ne(m.Tm, IntLit(0)), Select(Select(dom, m.Tm), kt))
	v := Ite(in, Select(Select(val, m.Tm), kt), e.zeroOf(mt.Elem()))
	return Value{T: mt.Elem(), Tm: v}
}

func (st *State) mapHas(m Value, k Value, mt *types.Map) Term {
	kt := st.mapKeyTerm(k, mt)
	dom, _, _, _ := st.mapHeaps(mt)
	return And(Ne(m.Tm, IntLit(0)), Select(Select(dom, m.Tm), kt))
}

func (st *State) mapLen(m Value, mt *types.Map) Term {
	_, _, ln, _ := st.mapHeaps(mt)
	l := Select(ln, m.Tm)
	st.assume(Ge(l, IntLit(0)))
	return Ite(Eq(m.Tm, IntLit(0)), IntLit(0), l)
}

func (st *State) lookup(x *ssa.Lookup) Value {
	base := st.val(x.X)
	idx := st.val(x.Index)
	if isString(base.T) {
		pos := x.Pos()
		txt := st.textAt(pos, x.X.Name()+"["+x.Index.Name()+"]")
		st.check("index", txt, pos, And(Le(IntLit(0), idx.Tm), Lt(idx.Tm, StrLen(base.Tm))))
		r := Value{T: types.Typ[types.Uint8], Tm: Select(StrArr(base.Tm), Ix(StrOff(base.Tm), idx.Tm))}
		st.assumeTypeInv(r)
		return r
	}
	mt := types.Unalias(base.T).Underlying().(*types.Map)
	v := st.mapGet(base, idx, mt)
	st.assumeTypeInvGuarded(v, st.mapHas(base, idx, mt))
	if x.CommaOk {
		return Value{T: x.Type(), Tup: []Value{v, {T: types.Typ[types.Bool], Tm: st.mapHas(base, idx, mt)}}}
	}
	return v
}

func (st *State) assumeTypeInvGuarded(v Value, g Term) {
	if v.Tm.IsZero() || v.T == nil {
		return
	}
	st.assume(Implies(g, st.eng().typeInv(v.T, v.Tm)))
	switch types.Unalias(v.T).Underlying().(type) {
	case *types.Pointer, *types.Map, *types.Chan:
		st.assume(Le(v.Tm, st.alloc))
	}
}

// range over maps and strings: the iterator state is not modelled; each Next yields an
// arbitrary element (maps) or an arbitrary position (strings).
func (st *State) rangeInit(x *ssa.Range) Value {
	v := st.val(x.X)
	return Value{T: x.Type(), Tup: []Value{v}}
}

func (st *State) rangeNext(x *ssa.Next) Value {
	e := st.eng()
	it := st.val(x.Iter)
	src := it.Tup[0]
	ok := e.fresh("next_ok", SBool)
	B := types.Typ[types.Bool]
	if x.IsString {
		i := e.fresh("next_i", SInt)
		r := e.fresh("next_r", SInt)
		st.assume(Implies(ok, And(Le(IntLit(0), i), Lt(i, StrLen(src.Tm)))))
		st.assume(And(Le(IntLit(0), r), Le(r, IntLit(0x10FFFF))))
		// ASCII bytes decode to themselves
		b := Select(StrArr(src.Tm), Ix(StrOff(src.Tm), i))
		st.assume(Implies(And(ok, Lt(b, IntLit(128))), Eq(r, b)))
		st.assume(Implies(And(ok, Ge(b, IntLit(128))), Ge(r, IntLit(128))))
		return Value{T: x.Type(), Tup: []Value{{T: B, Tm: ok}, {T: types.Typ[types.Int], Tm: i}, {T: types.Typ[types.Rune], Tm: r}}}
	}
	mt := types.Unalias(src.T).Underlying().(*types.Map)
	k := st.symbolicValue("next_k", mt.Key())
	kt := st.mapKeyTerm(k, mt)
	dom, val, _, _ := st.mapHeaps(mt)
	st.assume(Implies(ok, And(Ne(src.Tm, IntLit(0)), Select(Select(dom, src.Tm), kt))))
	// foreach rule (contract clause `loop N: foreach k int :: P(k)`): Go's range visits every key, so when the iteration
	// is over P holds for every key of the map, provided each iteration establishes P for its key (checked at the back edge)
	st.foreachAtNext(x, src, kt, ok, dom)
	v := Value{T: mt.Elem(), Tm: Select(Select(val, src.Tm), kt)}
	st.assumeTypeInvGuarded(v, ok)
	return Value{T: x.Type(), Tup: []Value{{T: B, Tm: ok}, k, v}}
}

// ---------------------------------------------------------------------------------------------
// channels (ghost: closed flag, capacity); contents are not modelled — a receive yields an
// arbitrary value satisfying the element type invariant (and the channel invariant when declared)

var chClosedSort = ArraySort(SInt, SBool)

func (st *State) makeChan(x *ssa.MakeChan) Value {
	ref := st.newRef()
	cl := st.heapGet("CH_closed", chClosedSort)
	st.heapSet("CH_closed", chClosedSort, Store(cl, ref, TFalse))
	sz := st.val(x.Size)
	cp := st.heapGet("CH_cap", ArraySort(SInt, SInt))
	st.heapSet("CH_cap", ArraySort(SInt, SInt), Store(cp, ref, sz.Tm))
	// nothing has been sent to or received from a new channel
	for _, dir := range []string{"NCS", "NCR"} {
		n := chanCounterName(dir, x.Type())
		h := st.heapGet(n, ArraySort(SInt, SInt))
		st.heapSet(n, ArraySort(SInt, SInt), Store(h, ref, IntLit(0)))
	}
	return Value{T: x.Type(), Tm: ref}
}

func (st *State) chanSend(x *ssa.Send) {
	ch := st.val(x.Chan)
	st.chanTypeFact(ch)
	st.val(x.X)
	st.sendCheck(ch, x.Pos())
	st.blockingCheck(x.Pos(), "blocking send")
	st.countChan("NCS", ch, TTrue)
}

func (st *State) sendCheck(ch Value, pos token.Pos) {
	if st.u.spec != nil && st.u.spec.Flags["checkclosed"] != "" {
		cl := st.heapGet("CH_closed", chClosedSort)
		st.check("closed", "send on closed channel: "+st.textAt(pos, "send"), pos, Not(Select(cl, ch.Tm)))
	}
}

func (st *State) chanRecv(x *ssa.UnOp, ch Value) Value {
	el := elemOf(ch.T)
	st.chanTypeFact(ch)
	v := st.symbolicValue("recv", el)
	st.blockingCheck(x.Pos(), "blocking receive")
	if x.CommaOk {
		ok := st.eng().fresh("recv_ok", SBool)
		st.countChan("NCR", ch, ok)
		return Value{T: x.Type(), Tup: []Value{v, {T: types.Typ[types.Bool], Tm: ok}}}
	}
	st.countChan("NCR", ch, TTrue)
	return v
}

// chanTypeFact: channels of different element types are different objects (chtype(ref) = id of the element type)
func (st *State) chanTypeFact(ch Value) {
	if ch.T == nil || ch.Tm.IsZero() {
		return
	}
	ct, ok := types.Unalias(ch.T).Underlying().(*types.Chan)
	if !ok {
		return
	}
	e := st.eng()
	e.chanMu.Lock()
	if e.chanTypeIDs == nil {
		e.chanTypeIDs = map[string]int{}
	}
	k := ct.Elem().String()
	id, have := e.chanTypeIDs[k]
	if !have {
		id = len(e.chanTypeIDs) + 1
		e.chanTypeIDs[k] = id
	}
	e.chanMu.Unlock()
	e.declare("chtype", "(declare-fun chtype (Int) Int)")
	st.assume(Or(Eq(ch.Tm, IntLit(0)), Eq(app(SInt, "chtype", ch.Tm), IntLit(int64(id)))))
}

// countChan: ghost counters of successful receives (NCR) and sends (NCS) per channel
func (st *State) countChan(dir string, chv Value, ok Term) {
	sort := ArraySort(SInt, SInt)
	name := chanCounterName(dir, chv.T)
	ch := chv.Tm
	h := st.heapGet(name, sort)
	st.heapSet(name, sort, Store(h, ch, Add(Select(h, ch), Ite(ok, IntLit(1), IntLit(0)))))
}

// chanCounterName: receive/send counters are kept per element type (channels of different element types are different
// objects, and a callee's effect on the counters is havocked per element type)
func chanCounterName(dir string, chT types.Type) string {
	el := "any"
	if chT != nil {
		if ct, ok := types.Unalias(chT).Underlying().(*types.Chan); ok {
			el = sanitize(ct.Elem().String())
		}
	}
	return dir + "_" + el
}

// blockingCheck: functions flagged nonblocking must not contain a channel operation that can block
func (st *State) blockingCheck(pos token.Pos, what string) {
	if st.u.spec != nil && st.u.spec.Flags["nonblocking"] != "" {
		st.check("nonblocking", what+": "+st.textAt(pos, what), pos, TFalse)
	}
}

func (st *State) chanClose(ch Value, pos token.Pos) {
	cl := st.heapGet("CH_closed", chClosedSort)
	st.check("nil", "close of nil channel: "+st.textAt(pos, "close"), pos, Ne(ch.Tm, IntLit(0)))
	if st.u.spec != nil && st.u.spec.Flags["checkclosed"] != "" {
		st.check("closed", "close of closed channel: "+st.textAt(pos, "close"), pos, Not(Select(cl, ch.Tm)))
	}
	st.heapSet("CH_closed", chClosedSort, Store(cl, ch.Tm, TTrue))
}

func (st *State) chanLen(ch Value) Term {
	l := st.eng().fresh("chlen", SInt)
	cp := st.heapGet("CH_cap", ArraySort(SInt, SInt))
	st.assume(And(Ge(l, IntLit(0)), Le(l, Select(cp, ch.Tm))))
	return l
}

func (st *State) selectOp(x *ssa.Select) bool {
	e := st.eng()
	fr := st.frame
	n := len(x.States)
	idx := e.fresh("sel", SInt)
	lo := IntLit(0)
	if !x.Blocking {
		lo = IntLit(-1)
	}
	st.assume(And(Le(lo, idx), Lt(idx, IntLit(int64(n)))))
	selOk := e.fresh("sel_ok", SBool)
	tup := []Value{{T: types.Typ[types.Int], Tm: idx}, {T: types.Typ[types.Bool], Tm: selOk}}
	if x.Blocking {
		st.blockingCheck(x.Pos(), "blocking select")
	}
	for i, s := range x.States {
		ch := st.val(s.Chan)
		st.chanTypeFact(ch)
		chosen := Eq(idx, IntLit(int64(i)))
		if s.Dir == types.RecvOnly {
			tup = append(tup, st.symbolicValue("sel_recv", elemOf(ch.T)))
			st.countChan("NCR", ch, And(chosen, selOk))
		} else {
			st.val(s.Send)
			st.sendCheck(ch, s.Pos)
			st.countChan("NCS", ch, chosen)
		}
	}
	// (also inside an inlined helper that has no contract of its own: the select was moved there)
	if us := st.u.spec; x.Blocking && us != nil && len(us.Wakes) > 0 && (fr.parent == nil || fr.spec == nil) {
		st.u.wakesHit = true
		for _, wc := range us.Wakes {
			env := st.newEnv(fr, nil)
			want := env.evalInt(wc.E)
			st.assumeAll(env.defs)
			var alts []Term
			for _, s := range x.States {
				if s.Dir == types.RecvOnly {
					alts = append(alts, Eq(st.val(s.Chan).Tm, want))
				}
			}
			goal := TFalse
			if len(alts) > 0 {
				goal = Or(alts...)
			}
			st.u.addObl(st, "wakeup", "select/"+clauseName(wc), x.Pos(), goal, false)
		}
	}
	fr.regs[x] = Value{T: x.Type(), Tup: tup}
	fr.idx++
	return false
}

func (st *State) foreachAtNext(x *ssa.Next, src Value, kt Term, ok Term, dom Term) {
	fr := st.frame
	if fr.spec == nil {
		return
	}
	loops := st.eng().loopsOf(fr.fn)
	var li *loopInfo
	for _, l := range loops {
		if l.body[x.Block()] {
			if li == nil || len(l.body) < len(li.body) {
				li = l
			}
		}
	}
	if li == nil {
		return
	}
	ls := fr.spec.Loops[li.ordinal]
	if ls == nil || len(ls.Foreach) == 0 {
		return
	}
	if fr.foreachKey == nil {
		fr.foreachKey = map[int]Term{}
	}
	fr.foreachKey[li.ordinal] = kt
	for _, c := range ls.Foreach {
		// c.E is "forall k int :: P(k)": at exit, for all keys in the domain
		q := c.E
		if q.Kind != EQuant || len(q.Bound) != 1 {
			panic(specErr("foreach clause must bind exactly one key variable"))
		}
		env := st.newEnv(fr, nil)
		kv := Term{"k!fe", SInt}
		env.vars[q.Bound[0].Name] = Value{T: mathInt, Tm: kv}
		env.inQuant++
		body := env.evalBool(q.Args[0])
		env.inQuant--
		st.assumeAll(env.defs)
		st.assume(Implies(Not(ok), Forall([]Term{kv}, Implies(And(Ne(src.Tm, IntLit(0)), Select(Select(dom, src.Tm), kv)), body))))
	}
}
