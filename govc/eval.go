package main

// Evaluation of contract expressions against symbolic states.

import (
	"go/token"
	"fmt"
	"go/constant"
	"go/types"
	"sort"
	"strconv"
	"strings"

	"golang.org/x/tools/go/ssa"
)

type Env struct {
	st       *State
	old      *State
	fr       *Frame
	vars     map[string]Value
	res      []Value
	resNames []string
	defs     []Term
	post     bool
	pkg      *types.Package
	inQuant  int
	depth    int
	callee   *FuncSpec // when evaluating a callee contract at a call site
	prev     *State    // loop step clauses: state at the head of the current iteration
	outer    *State    // inside old(): the state old() was evaluated in, for now(e)
	lentry   *State    // loop clauses: the state in which the loop was entered, for atentry(e)
}

func (st *State) newEnv(fr *Frame, res []Value) *Env {
	env := &Env{st: st, old: st.entry, fr: fr, vars: map[string]Value{}, res: res}
	if fr != nil {
		if fr.fn.Pkg != nil {
			env.pkg = fr.fn.Pkg.Pkg
		} else if o := fr.fn.Origin(); o != nil && o.Pkg != nil {
			env.pkg = o.Pkg.Pkg // instance of a generic function
		}
		if fr.spec != nil {
			env.resNames = fr.spec.ResNames
		}
		// named results from the signature
		if len(env.resNames) == 0 {
			rs := fr.fn.Signature.Results()
			for i := 0; i < rs.Len(); i++ {
				env.resNames = append(env.resNames, rs.At(i).Name())
			}
		}
	}
	if env.old == nil {
		env.old = st
	}
	return env
}

func specErr(f string, a ...interface{}) *EngineError {
	return &EngineError{"spec: " + fmt.Sprintf(f, a...)}
}

func (env *Env) evalBool(e *Expr) Term {
	v := env.eval(e)
	if v.Tm.Sort != SBool {
		panic(specErr("expected bool: %s (got %s)", e, v.Tm.Sort))
	}
	return v.Tm
}

func (env *Env) evalInt(e *Expr) Term {
	v := env.eval(e)
	if v.Tm.Sort != SInt {
		panic(specErr("expected int: %s (got %s)", e, v.Tm.Sort))
	}
	return v.Tm
}

var mathInt = types.Typ[types.UntypedInt]

func (env *Env) eng() *Engine { return env.st.eng() }

func (env *Env) eval(e *Expr) Value {
	switch e.Kind {
	case ENum:
		n, err := parseNumLit(e.Op)
		if err != nil {
			panic(specErr("%v", err))
		}
		return Value{T: mathInt, Tm: IntLitStr(n)}
	case EChar:
		s, err := strconv.Unquote(e.Op)
		if err != nil || len(s) == 0 {
			panic(specErr("bad char literal %s", e.Op))
		}
		if len(s) == 1 {
			return Value{T: mathInt, Tm: IntLit(int64(s[0]))}
		}
		r := []rune(s)
		return Value{T: mathInt, Tm: IntLit(int64(r[0]))}
	case EStr:
		s, err := strconv.Unquote(e.Op)
		if err != nil {
			panic(specErr("bad string literal %s", e.Op))
		}
		return Value{T: types.Typ[types.String], Tm: env.st.strLit(s)}
	case EIdent:
		return env.ident(e.Op)
	case EUn:
		switch e.Op {
		case "!":
			return Value{T: types.Typ[types.Bool], Tm: Not(env.evalBool(e.Args[0]))}
		case "-":
			return Value{T: mathInt, Tm: Neg(env.evalInt(e.Args[0]))}
		case "*":
			v := env.eval(e.Args[0])
			return env.st.load(env.st.asPointer(v))
		case "&":
			return env.addrOf(e.Args[0])
		}
	case EBin:
		return env.binary(e)
	case ECond:
		c := env.evalBool(e.Args[0])
		a := env.eval(e.Args[1])
		b := env.eval(e.Args[2])
		return Value{T: a.T, Tm: Ite(c, a.Tm, b.Tm)}
	case EQuant:
		return env.quant(e)
	case ESel:
		return env.selector(e)
	case EIndex:
		return env.index(e)
	case ESlice:
		return env.slice(e)
	case ECall:
		return env.call(e)
	}
	panic(specErr("cannot evaluate %s", e))
}

func (env *Env) quant(e *Expr) Value {
	saved := map[string]*Value{}
	var vars []Term
	var guards []Term
	for _, b := range e.Bound {
		if old, ok := env.vars[b.Name]; ok {
			o := old
			saved[b.Name] = &o
		} else {
			saved[b.Name] = nil
		}
		T := env.resolveType(b.Type)
		env.eng().freshN++
		t := Term{fmt.Sprintf("%s!b%d", sanitize(b.Name), env.eng().freshN), env.eng().sortOf(T)}
		vars = append(vars, t)
		VT := T
		if isInteger(T) && b.Type == "int" {
			VT = mathInt
		} else if isInteger(T) {
			guards = append(guards, env.eng().typeInv(T, t))
		}
		env.vars[b.Name] = Value{T: VT, Tm: t}
	}
	env.inQuant++
	body := env.evalBool(e.Args[0])
	env.inQuant--
	for n, o := range saved {
		if o == nil {
			delete(env.vars, n)
		} else {
			env.vars[n] = *o
		}
	}
	if e.Op == "forall" {
		return Value{T: types.Typ[types.Bool], Tm: Forall(vars, Implies(And(guards...), body))}
	}
	return Value{T: types.Typ[types.Bool], Tm: Exists(vars, And(append(guards, body)...))}
}

func (env *Env) binary(e *Expr) Value {
	B := types.Typ[types.Bool]
	switch e.Op {
	case "&&":
		return Value{T: B, Tm: And(env.evalBool(e.Args[0]), env.evalBool(e.Args[1]))}
	case "||":
		return Value{T: B, Tm: Or(env.evalBool(e.Args[0]), env.evalBool(e.Args[1]))}
	case "==>":
		return Value{T: B, Tm: Implies(env.evalBool(e.Args[0]), env.evalBool(e.Args[1]))}
	case "<==>":
		return Value{T: B, Tm: Eq(env.evalBool(e.Args[0]), env.evalBool(e.Args[1]))}
	}
	a := env.eval(e.Args[0])
	b := env.eval(e.Args[1])
	switch e.Op {
	case "===":
		// structural identity (for strings: same backing array, offset, length)
		return Value{T: B, Tm: Eq(a.Tm, b.Tm)}
	case "==", "!=":
		var t Term
		if isNilVal(b) && a.T != nil && !isNilVal(a) {
			b = Value{T: a.T, Tm: env.eng().zeroOf(a.T)}
		} else if isNilVal(a) && b.T != nil && !isNilVal(b) {
			a = Value{T: b.T, Tm: env.eng().zeroOf(b.T)}
		}
		if a.Tm.Sort != b.Tm.Sort && a.Ptr == nil && b.Ptr == nil {
			panic(specErr("comparison of different sorts in %s (%s vs %s)", e, a.Tm.Sort, b.Tm.Sort))
		}
		if a.Tm.Sort == SStr {
			t = env.st.strEq(a.Tm, b.Tm)
		} else if a.Ptr != nil || b.Ptr != nil || (a.T != nil && b.T != nil && a.Tm.Sort != SInt && a.Tm.Sort != SBool && a.Tm.Sort != SStr) {
			t = env.st.equalVals(a, b)
		} else {
			t = Eq(a.Tm, b.Tm)
		}
		if e.Op == "!=" {
			t = Not(t)
		}
		return Value{T: B, Tm: t}
	case "<":
		return Value{T: B, Tm: Lt(a.Tm, b.Tm)}
	case "<=":
		return Value{T: B, Tm: Le(a.Tm, b.Tm)}
	case ">":
		return Value{T: B, Tm: Gt(a.Tm, b.Tm)}
	case ">=":
		return Value{T: B, Tm: Ge(a.Tm, b.Tm)}
	case "+":
		if a.Tm.Sort == SStr {
			if env.inQuant > 0 {
				panic(specErr("string concatenation inside a quantifier"))
			}
			return Value{T: a.T, Tm: env.st.concat(a.Tm, b.Tm)}
		}
		return Value{T: mathInt, Tm: Add(a.Tm, b.Tm)}
	case "++":
		if env.inQuant > 0 {
			panic(specErr("string concatenation inside a quantifier"))
		}
		return Value{T: a.T, Tm: env.st.concat(a.Tm, b.Tm)}
	case "-":
		return Value{T: mathInt, Tm: Sub(a.Tm, b.Tm)}
	case "*":
		return Value{T: mathInt, Tm: Mul(a.Tm, b.Tm)}
	case "/":
		return Value{T: mathInt, Tm: Div(a.Tm, b.Tm)}
	case "%":
		return Value{T: mathInt, Tm: Mod(a.Tm, b.Tm)}
	case "<<":
		if n, ok := isIntLit(b.Tm); ok && n >= 0 && n <= 64 {
			return Value{T: mathInt, Tm: Mul(a.Tm, Term{pow2(int(n)), SInt})}
		}
	case ">>":
		if n, ok := isIntLit(b.Tm); ok && n >= 0 && n <= 64 {
			return Value{T: mathInt, Tm: Div(a.Tm, Term{pow2(int(n)), SInt})}
		}
	}
	panic(specErr("unsupported operator %s in %s", e.Op, e))
}

func isNilVal(v Value) bool {
	if b, ok := v.T.(*types.Basic); ok && b.Kind() == types.UntypedNil {
		return true
	}
	return false
}

func (env *Env) ident(name string) Value {
	B := types.Typ[types.Bool]
	if v, ok := env.vars[name]; ok {
		return v
	}
	switch name {
	case "true":
		return Value{T: B, Tm: TTrue}
	case "false":
		return Value{T: B, Tm: TFalse}
	case "nil":
		return Value{T: types.Typ[types.UntypedNil], Tm: IntLit(0)}
	case "result":
		if len(env.res) == 1 {
			return env.res[0]
		}
		if len(env.res) == 0 {
			panic(specErr("'result' used but there is no result here"))
		}
		return Value{Tup: env.res}
	}
	for i, rn := range env.resNames {
		if rn == name && rn != "" && i < len(env.res) && env.res != nil {
			return env.res[i]
		}
	}
	if env.fr != nil {
		if env.post {
			if v, ok := env.fr.params[name]; ok {
				return v
			}
		}
		if v, ok := env.local(name); ok {
			return v
		}
		if v, ok := env.fr.params[name]; ok {
			return v
		}
		// a clause of the unit evaluated inside an inlined helper that has no contract (adopted loop clauses, before-
		// assertions): names the helper does not have are the unit's own
		if env.fr.spec == nil && env.fr.parent != nil {
			saved := env.fr
			for p := saved.parent; p != nil; p = p.parent {
				env.fr = p
				if v, ok := env.local(name); ok {
					env.fr = saved
					return v
				}
				if v, ok := p.params[name]; ok {
					env.fr = saved
					return v
				}
			}
			env.fr = saved
		}
	}
	// ghost variables
	if g := env.ghostVar(name); g != nil {
		return *g
	}
	// package-level objects
	if env.pkg != nil {
		if obj := env.pkg.Scope().Lookup(name); obj != nil {
			return env.object(obj)
		}
		// imported package
		for _, imp := range env.pkg.Imports() {
			if imp.Name() == name {
				return Value{Origin: "pkg:" + imp.Path()}
			}
		}
		if name == env.pkg.Name() {
			return Value{Origin: "pkg:" + env.pkg.Path()}
		}
	}
	// any loaded repo package by name
	if p, ok := env.eng().ld.pkgByNm[name]; ok {
		return Value{Origin: "pkg:" + p.PkgPath}
	}
	for _, tp := range env.eng().ld.allTypesPkgs() {
		if tp.Name() == name {
			return Value{Origin: "pkg:" + tp.Path()}
		}
	}
	// `rangeindex` in a clause of a loop that is no longer a range loop: for the canonical index loop `for i := ...; i < n; i++`
	// the hidden index of the range form (the element processed last, -1 before the first) is i - 1 at the loop head. Lets loop
	// clauses survive a change of the loop's form; used only where the name would otherwise be unknown, and a wrong guess can
	// only make an obligation fail (the clause is still checked at loop entry and around the back edge).
	if strings.HasPrefix(name, "rangeindex") && env.fr != nil {
		if v, ok := env.indexLoopAlias(); ok {
			return v
		}
	}
	panic(specErr("unknown identifier %q", name))
}

func (env *Env) ghostVar(name string) *Value {
	e := env.eng()
	pk := ""
	if env.pkg != nil {
		pk = env.pkg.Name()
	}
	if env.callee != nil {
		pk = env.callee.PkgName
	}
	gd := e.specs.Ghosts[pk+"."+name]
	if gd == nil {
		gd = e.specs.Ghosts["prelude."+name]
	}
	if gd == nil || gd.IsField {
		return nil
	}
	T := env.resolveTypeIn(gd.Type, gd.PkgName)
	hn := "GH_" + sanitize(gd.PkgName+"_"+gd.Name)
	t := env.st.heapGet(hn, e.sortOf(T))
	VT := T
	if gd.Type == "int" {
		VT = mathInt
	}
	return &Value{T: VT, Tm: t}
}

func (env *Env) object(obj types.Object) Value {
	e := env.eng()
	switch o := obj.(type) {
	case *types.Const:
		return env.constValue(o.Val(), o.Type())
	case *types.Var:
		hn := "G_" + sanitize(o.Pkg().Name()+"_"+o.Name())
		p := &Pointer{Kind: RGlobal, Glob: hn, RootT: o.Type()}
		return env.st.load(p)
	case *types.TypeName:
		return Value{Origin: "type:" + o.Name(), T: o.Type()}
	case *types.Func:
		return Value{Origin: "func:" + o.FullName()}
	}
	_ = e
	panic(specErr("unsupported object %s", obj))
}

func (env *Env) constValue(v constant.Value, T types.Type) Value {
	switch v.Kind() {
	case constant.Bool:
		return Value{T: T, Tm: BoolLit(constant.BoolVal(v))}
	case constant.Int:
		return Value{T: mathInt, Tm: IntLitStr(v.ExactString())}
	case constant.String:
		return Value{T: T, Tm: env.st.strLit(constant.StringVal(v))}
	}
	panic(specErr("unsupported constant kind"))
}

// local finds a local variable (cell) of the current frame by source name. name#k selects the
// k-th declaration (by position) among homonyms.
// indexLoopAlias: the value of (index variable - 1) of the innermost loop around the frame's current block, when that loop
// has the canonical form: its header ends in `if i < bound` with i a named local
func (env *Env) indexLoopAlias() (Value, bool) {
	fr := env.fr
	if fr.block == nil {
		return Value{}, false
	}
	var best *loopInfo
	for _, li := range env.eng().loopsOf(fr.fn) {
		if li.body[fr.block] && (best == nil || len(li.body) < len(best.body)) {
			best = li
		}
	}
	if best == nil || len(best.header.Instrs) == 0 {
		return Value{}, false
	}
	iff, ok := best.header.Instrs[len(best.header.Instrs)-1].(*ssa.If)
	if !ok {
		return Value{}, false
	}
	cmp, ok := iff.Cond.(*ssa.BinOp)
	if !ok || cmp.Op != token.LSS {
		return Value{}, false
	}
	ld, ok := cmp.X.(*ssa.UnOp)
	if !ok || ld.Op != token.MUL {
		return Value{}, false
	}
	al, ok := ld.X.(*ssa.Alloc)
	if !ok || al.Comment == "" || !isInteger(types.Unalias(al.Type()).Underlying().(*types.Pointer).Elem()) {
		return Value{}, false
	}
	c := fr.cells[al]
	if c == nil {
		return Value{}, false
	}
	v, ok := env.st.cellVal[c]
	if !ok {
		return Value{}, false
	}
	return Value{T: mathInt, Tm: Sub(v.Tm, IntLit(1))}, true
}

func (env *Env) local(name string) (Value, bool) {
	fr := env.fr
	ord := 0
	if i := strings.IndexByte(name, '#'); i >= 0 {
		n, err := strconv.Atoi(name[i+1:])
		if err == nil {
			ord = n
		}
		name = name[:i]
	}
	var allocs []*ssa.Alloc
	for _, b := range fr.fn.Blocks {
		for _, in := range b.Instrs {
			if a, ok := in.(*ssa.Alloc); ok && a.Comment == name {
				allocs = append(allocs, a)
			}
		}
	}
	if ord > len(allocs) && len(allocs) > 0 && fr.spec == nil && fr.parent != nil {
		// "name#N" in a clause adopted by an inlined helper: the helper declares the name fewer times than the unit did
		ord = len(allocs)
	}
	if len(allocs) == 0 {
		// a variable captured by a closure: the free variable is a pointer to the enclosing function's cell
		for _, fv := range fr.fn.FreeVars {
			if fv.Name() == name {
				if pv, ok := fr.freeVars[fv]; ok {
					if _, isPtr := types.Unalias(fv.Type()).Underlying().(*types.Pointer); isPtr && pv.Ptr != nil {
						return env.st.load(pv.Ptr), true
					}
					return pv, true
				}
			}
		}
		return Value{}, false
	}
	sort.Slice(allocs, func(i, j int) bool { return allocs[i].Pos() < allocs[j].Pos() })
	var pick *ssa.Alloc
	if ord > 0 {
		if ord > len(allocs) {
			panic(specErr("no declaration #%d of %s", ord, name))
		}
		pick = allocs[ord-1]
	} else {
		// prefer the first one that has been executed on this path
		for _, a := range allocs {
			if _, ok := fr.regs[a]; ok {
				pick = a
				break
			}
		}
		if pick == nil {
			return Value{}, false
		}
	}
	pv, ok := fr.regs[pick]
	if !ok {
		return Value{}, false
	}
	return env.st.load(env.st.asPointer(pv)), true
}

func (env *Env) resolveType(txt string) types.Type {
	pk := ""
	if env.pkg != nil {
		pk = env.pkg.Name()
	}
	if env.callee != nil {
		pk = env.callee.PkgName
	}
	return env.resolveTypeIn(txt, pk)
}

func (env *Env) resolveTypeIn(txt string, pkgName string) types.Type {
	return env.eng().resolveType(txt, pkgName)
}

func (e *Engine) resolveType(txt string, pkgName string) types.Type {
	txt = strings.TrimSpace(txt)
	switch {
	case strings.HasPrefix(txt, "*"):
		return types.NewPointer(e.resolveType(txt[1:], pkgName))
	case strings.HasPrefix(txt, "[]"):
		return types.NewSlice(e.resolveType(txt[2:], pkgName))
	case strings.HasPrefix(txt, "["):
		j := strings.IndexByte(txt, ']')
		n, err := strconv.Atoi(txt[1:j])
		if err != nil {
			panic(specErr("bad array type %s", txt))
		}
		return types.NewArray(e.resolveType(txt[j+1:], pkgName), int64(n))
	case strings.HasPrefix(txt, "map["):
		// find matching ]
		depth := 0
		for i := 3; i < len(txt); i++ {
			if txt[i] == '[' {
				depth++
			} else if txt[i] == ']' {
				depth--
				if depth == 0 {
					return types.NewMap(e.resolveType(txt[4:i], pkgName), e.resolveType(txt[i+1:], pkgName))
				}
			}
		}
	case strings.HasPrefix(txt, "func"):
		return types.NewSignatureType(nil, nil, nil, nil, nil, false)
	}
	if obj := types.Universe.Lookup(txt); obj != nil {
		if tn, ok := obj.(*types.TypeName); ok {
			return tn.Type()
		}
	}
	if txt == "any" || txt == "interface{}" {
		return types.NewInterfaceType(nil, nil)
	}
	if i := strings.IndexByte(txt, '.'); i >= 0 {
		pn, tn := txt[:i], txt[i+1:]
		if T := e.lookupTypeByPkgName(pn, tn); T != nil {
			return T
		}
		panic(specErr("unknown type %s", txt))
	}
	if T := e.lookupTypeByPkgName(pkgName, txt); T != nil {
		return T
	}
	panic(specErr("unknown type %s (package %s)", txt, pkgName))
}

func (e *Engine) lookupTypeByPkgName(pkgName, typeName string) types.Type {
	var found types.Type
	for _, tp := range e.ld.allTypesPkgs() {
		if tp.Name() == pkgName {
			if obj := tp.Scope().Lookup(typeName); obj != nil {
				if tn, ok := obj.(*types.TypeName); ok {
					found = tn.Type()
					if strings.HasPrefix(tp.Path(), repoModule) {
						return found
					}
				}
			}
		}
	}
	return found
}

func (env *Env) selector(e *Expr) Value {
	x := env.eval(e.Args[0])
	eng := env.eng()
	if strings.HasPrefix(x.Origin, "pkg:") {
		path := x.Origin[4:]
		for _, tp := range eng.ld.allTypesPkgs() {
			if tp.Path() == path {
				obj := tp.Scope().Lookup(e.Op)
				if obj == nil {
					// ghost variable of that package
					sub := *env
					sub.pkg = tp
					sub.callee = nil
					if g := sub.ghostVar(e.Op); g != nil {
						return *g
					}
					panic(specErr("unknown %s.%s", tp.Name(), e.Op))
				}
				return env.object(obj)
			}
		}
		panic(specErr("package %s not loaded", path))
	}
	// tuple projections: result.0
	if x.Tup != nil {
		n, err := strconv.Atoi(e.Op)
		if err != nil || n >= len(x.Tup) {
			panic(specErr("bad tuple projection .%s", e.Op))
		}
		return x.Tup[n]
	}
	if x.T == nil {
		panic(specErr("selector .%s on untyped value in %s", e.Op, e))
	}
	T := types.Unalias(x.T)
	// auto-deref
	if pt, ok := T.Underlying().(*types.Pointer); ok {
		p := env.st.asPointer(x)
		if f, idx := findField(pt.Elem(), e.Op); f != nil {
			// embedded promotion
			cur := p
			curT := pt.Elem()
			for k, i := range idx {
				cur = cur.extend(PStep{Field: i, T: curT})
				ft := types.Unalias(curT).Underlying().(*types.Struct).Field(i).Type()
				if k < len(idx)-1 {
					if ipt, ok := types.Unalias(ft).Underlying().(*types.Pointer); ok {
						v := env.st.load(cur)
						cur = env.st.asPointer(v)
						ft = ipt.Elem()
					}
				}
				curT = ft
			}
			v := env.st.load(cur)
			if _, ok := types.Unalias(v.T).Underlying().(*types.Signature); ok {
				v.Origin = env.st.fieldOrigin(cur)
			}
			return v
		}
		// ghost field
		if gv := env.ghostField(pt.Elem(), e.Op, p.Ref); gv != nil {
			return *gv
		}
		panic(specErr("no field %s in %s", e.Op, pt.Elem()))
	}
	if _, ok := T.Underlying().(*types.Struct); ok {
		if f, idx := findField(T, e.Op); f != nil {
			t := x.Tm
			curT := types.Type(T)
			for _, i := range idx {
				ft := types.Unalias(curT).Underlying().(*types.Struct).Field(i).Type()
				t = eng.structField(curT, t, i)
				curT = ft
			}
			return Value{T: curT, Tm: t}
		}
		panic(specErr("no field %s in %s", e.Op, T))
	}
	panic(specErr("selector .%s on %s", e.Op, x.T))
}

func (env *Env) ghostField(T types.Type, name string, ref Term) *Value {
	eng := env.eng()
	n, ok := types.Unalias(T).(*types.Named)
	if !ok {
		return nil
	}
	pk := ""
	if n.Obj().Pkg() != nil {
		pk = n.Obj().Pkg().Name()
	}
	gd := eng.specs.Ghosts[pk+"."+n.Obj().Name()+"."+name]
	if gd == nil {
		return nil
	}
	FT := eng.resolveType(gd.Type, gd.PkgName)
	hn := "GF_" + sanitize(pk+"_"+n.Obj().Name()+"_"+name)
	h := env.st.heapGet(hn, ArraySort(SInt, eng.sortOf(FT)))
	VT := FT
	if gd.Type == "int" {
		VT = mathInt
	}
	return &Value{T: VT, Tm: Select(h, ref)}
}

func findField(T types.Type, name string) (*types.Var, []int) {
	obj, idx, _ := types.LookupFieldOrMethod(T, true, nil, name)
	if obj == nil {
		// unexported fields need the package
		if n, ok := types.Unalias(T).(*types.Named); ok && n.Obj().Pkg() != nil {
			obj, idx, _ = types.LookupFieldOrMethod(T, true, n.Obj().Pkg(), name)
		}
		if obj == nil {
			if st, ok := types.Unalias(T).Underlying().(*types.Struct); ok {
				for i := 0; i < st.NumFields(); i++ {
					if st.Field(i).Name() == name {
						return st.Field(i), []int{i}
					}
				}
			}
			return nil, nil
		}
	}
	if v, ok := obj.(*types.Var); ok {
		return v, idx
	}
	return nil, nil
}

func (env *Env) index(e *Expr) Value {
	x := env.eval(e.Args[0])
	eng := env.eng()
	if x.T == nil {
		panic(specErr("index on untyped value in %s", e))
	}
	switch t := types.Unalias(x.T).Underlying().(type) {
	case *types.Basic:
		i := env.evalInt(e.Args[1])
		return Value{T: mathInt, Tm: Select(StrArr(x.Tm), Ix(StrOff(x.Tm), i))}
	case *types.Slice:
		i := env.evalInt(e.Args[1])
		name, sort := eng.memName(t.Elem())
		m := env.st.heapGet(name, sort)
		r := Value{T: t.Elem(), Tm: Select(Select(m, SlRef(x.Tm)), Ix(SlOff(x.Tm), i))}
		if isInteger(t.Elem()) {
			r.T = mathInt
		}
		return r
	case *types.Array:
		i := env.evalInt(e.Args[1])
		r := Value{T: t.Elem(), Tm: Select(x.Tm, i)}
		if isInteger(t.Elem()) {
			r.T = mathInt
		}
		return r
	case *types.Map:
		k := env.eval(e.Args[1])
		return env.st.mapGet(x, k, t)
	case *types.Pointer:
		if arr, ok := types.Unalias(t.Elem()).Underlying().(*types.Array); ok {
			i := env.evalInt(e.Args[1])
			p := env.st.asPointer(x)
			name, sort := eng.memName(arr.Elem())
			m := env.st.heapGet(name, sort)
			return Value{T: arr.Elem(), Tm: Select(Select(m, p.Ref), i)}
		}
	}
	panic(specErr("index on %s", x.T))
}

func (env *Env) slice(e *Expr) Value {
	x := env.eval(e.Args[0])
	var lo, hi Term
	if e.Args[1] != nil {
		lo = env.evalInt(e.Args[1])
	} else {
		lo = IntLit(0)
	}
	switch types.Unalias(x.T).Underlying().(type) {
	case *types.Basic:
		if e.Args[2] != nil {
			hi = env.evalInt(e.Args[2])
		} else {
			hi = StrLen(x.Tm)
		}
		return Value{T: x.T, Tm: MkStr4(StrArr(x.Tm), Add(StrOff(x.Tm), lo), Sub(hi, lo), StrOwn(x.Tm))}
	case *types.Slice:
		if e.Args[2] != nil {
			hi = env.evalInt(e.Args[2])
		} else {
			hi = SlLen(x.Tm)
		}
		return Value{T: x.T, Tm: MkSlice(SlRef(x.Tm), Add(SlOff(x.Tm), lo), Sub(hi, lo), Sub(SlCap(x.Tm), lo))}
	}
	panic(specErr("slice of %s", x.T))
}

func (env *Env) call(e *Expr) Value {
	eng := env.eng()
	B := types.Typ[types.Bool]
	fnE := e.Args[0]
	args := e.Args[1:]
	if fnE.Kind == ETypeLit {
		// conversion like []byte(x)
		T := env.resolveType(fnE.Op)
		v := env.eval(args[0])
		return env.st.convert(v, T, 0)
	}
	if fnE.Kind == EIdent {
		switch fnE.Op {
		case "len":
			v := env.eval(args[0])
			return Value{T: mathInt, Tm: env.st.lenOf(v)}
		case "cap":
			v := env.eval(args[0])
			return Value{T: mathInt, Tm: SlCap(v.Tm)}
		case "old":
			sub := *env
			sub.st = env.old
			sub.outer = env.st
			sub.vars = env.vars
			if env.fr != nil {
				// in old(), names denote entry values
				sub.post = true
			}
			v := sub.eval(args[0])
			env.defs = append(env.defs, sub.defs[len(env.defs):]...)
			return v
		case "now":
			// now(e) inside old(...): e evaluated in the state the enclosing old() was written in
			if env.outer == nil {
				return env.eval(args[0])
			}
			sub := *env
			sub.st = env.outer
			sub.outer = nil
			sub.vars = env.vars
			v := sub.eval(args[0])
			env.defs = append(env.defs, sub.defs[len(env.defs):]...)
			return v
		case "cur":
			// cur(x): the CURRENT value of the local/parameter cell x (in ensures a parameter name denotes its entry value)
			if args[0].Kind != EIdent || env.fr == nil {
				panic(specErr("cur(identifier)"))
			}
			if v, ok := env.local(args[0].Op); ok {
				return v
			}
			panic(specErr("cur(%s): no such local", args[0].Op))
		case "atentry":
			// atentry(e) in a loop invariant / step clause: e evaluated in the state in which the loop was entered
			if env.lentry == nil {
				return env.eval(args[0])
			}
			sub := *env
			sub.st = env.lentry
			sub.vars = env.vars
			v := sub.eval(args[0])
			env.defs = append(env.defs, sub.defs[len(env.defs):]...)
			return v
		case "prev":
			if env.prev == nil {
				panic(specErr("prev() outside a loop step clause"))
			}
			sub := *env
			sub.st = env.prev
			sub.vars = env.vars
			v := sub.eval(args[0])
			env.defs = append(env.defs, sub.defs[len(env.defs):]...)
			return v
		case "int", "byte", "int64", "uint8", "uint16", "uint32", "uint64", "int32", "uint", "int16", "int8":
			v := env.eval(args[0])
			if fnE.Op == "int" || fnE.Op == "int64" {
				return Value{T: mathInt, Tm: v.Tm}
			}
			T := types.Universe.Lookup(fnE.Op).Type()
			b := T.Underlying().(*types.Basic)
			bits, signed := intBits(b)
			m := Mod(v.Tm, Term{pow2(bits), SInt})
			if signed {
				m = Ite(Ge(m, Term{pow2(bits - 1), SInt}), Sub(m, Term{pow2(bits), SInt}), m)
			}
			return Value{T: mathInt, Tm: m}
		case "string":
			v := env.eval(args[0])
			if isString(v.T) {
				return v
			}
			return env.st.convert(v, types.Typ[types.String], 0)
		case "unchanged":
			var cs []Term
			for _, a := range args {
				cur := env.eval(a)
				sub := *env
				sub.st = env.old
				sub.post = true
				old := sub.eval(a)
				cs = append(cs, env.st.equalValsSpec(cur, old))
			}
			return Value{T: B, Tm: And(cs...)}
		case "writable":
			v := env.eval(args[0])
			return Value{T: B, Tm: Ne(StrOwn(v.Tm), IntLit(0))}
		case "shared":
			// a string made by util.StringFromBytes over memory that existed before the current call (a view, not a copy)
			v := env.eval(args[0])
			return Value{T: B, Tm: Eq(StrOwn(v.Tm), IntLit(1))}
		case "isfresh":
			v := env.eval(args[0])
			t, _ := env.st.tryPtrTerm(v)
			if isSlice(v.T) {
				t = SlRef(v.Tm)
			} else if v.T != nil && isInterface(v.T) {
				t = IfVal(v.Tm) // the object an interface value wraps
			}
			return Value{T: B, Tm: Gt(t, env.old.alloc)}
		case "allocated":
			// allocated(x): the object / backing array of x exists in the state the clause is evaluated in (its reference is
			// not above the allocation watermark): whatever is allocated afterwards is a different object
			v := env.eval(args[0])
			t, _ := env.st.tryPtrTerm(v)
			if isSlice(v.T) {
				t = SlRef(v.Tm)
			} else if v.T != nil && isInterface(v.T) {
				t = IfVal(v.Tm)
			}
			return Value{T: B, Tm: Le(t, env.st.alloc)}
		case "typeis":
			// typeis(x, T): dynamic type of interface x is T
			v := env.eval(args[0])
			T := env.resolveType(args[1].String())
			return Value{T: B, Tm: Eq(IfType(v.Tm), IntLit(int64(eng.typeID(T))))}
		case "ref":
			v := env.eval(args[0])
			if isSlice(v.T) {
				return Value{T: mathInt, Tm: SlRef(v.Tm)}
			}
			if v.T != nil && isInterface(v.T) {
				return Value{T: mathInt, Tm: IfVal(v.Tm)}
			}
			t, ok := env.st.tryPtrTerm(v)
			if !ok && v.Ptr != nil && v.Ptr.Kind == RObj && len(v.Ptr.Path) > 0 {
				// address of a field of an object: an uninterpreted function of the object and the field path
				pathID, allFields := int64(0), true
				for _, s := range v.Ptr.Path {
					if s.IsIdx {
						allFields = false
						break
					}
					pathID = pathID*64 + int64(s.Field) + 1
				}
				if allFields {
					eng.declare("subref", "(declare-fun subref (Int Int) Int)")
					t = app(SInt, "subref", v.Ptr.Ref, IntLit(pathID))
				}
			}
			return Value{T: mathInt, Tm: t}
		case "off":
			v := env.eval(args[0])
			if isSlice(v.T) {
				return Value{T: mathInt, Tm: SlOff(v.Tm)}
			}
			return Value{T: mathInt, Tm: StrOff(v.Tm)}
		case "arr":
			v := env.eval(args[0])
			if isString(v.T) {
				return Value{T: nil, Tm: StrArr(v.Tm)}
			}
			el := elemOf(v.T)
			name, sort := eng.memName(el)
			return Value{T: nil, Tm: Select(env.st.heapGet(name, sort), SlRef(v.Tm))}
		case "at":
			// at(s, p): the element at ABSOLUTE position p of the backing array of s
			v := env.eval(args[0])
			pp := env.evalInt(args[1])
			if isString(v.T) {
				return Value{T: mathInt, Tm: Select(StrArr(v.Tm), pp)}
			}
			el := elemOf(v.T)
			name, sort := eng.memName(el)
			m := env.st.heapGet(name, sort)
			r := Value{T: el, Tm: Select(Select(m, SlRef(v.Tm)), pp)}
			if isInteger(el) {
				r.T = mathInt
			}
			return r
		case "srank":
			// srank(s): the rank of s in the lexicographic order (same embedding as the < operator on strings)
			v := env.eval(args[0])
			k := env.st.uf("skey", SInt, v.Tm)
			if env.inQuant == 0 {
				k = env.st.strKey(v.Tm)
			}
			return Value{T: mathInt, Tm: env.st.strRank(k)}
		case "key":
			v := env.eval(args[0])
			if env.inQuant > 0 {
				// no pairwise key axioms for terms with bound variables (congruence on the Str term suffices)
				return Value{T: mathInt, Tm: env.st.uf("skey", SInt, v.Tm)}
			}
			return Value{T: mathInt, Tm: env.st.strKey(v.Tm)}
		case "has":
			m := env.eval(args[0])
			k := env.eval(args[1])
			mt := types.Unalias(m.T).Underlying().(*types.Map)
			return Value{T: B, Tm: env.st.mapHas(m, k, mt)}
		case "rawhas":
			m := env.eval(args[0])
			k := env.evalInt(args[1])
			mt := types.Unalias(m.T).Underlying().(*types.Map)
			dom, _, _, _ := env.st.mapHeaps(mt)
			return Value{T: B, Tm: And(Ne(m.Tm, IntLit(0)), Select(Select(dom, m.Tm), k))}
		case "rawget":
			m := env.eval(args[0])
			k := env.evalInt(args[1])
			mt := types.Unalias(m.T).Underlying().(*types.Map)
			_, val, _, _ := env.st.mapHeaps(mt)
			return Value{T: mt.Elem(), Tm: Select(Select(val, m.Tm), k)}
		case "as":
			// as(x, T): payload of interface x viewed as T
			v := env.eval(args[0])
			T := env.resolveType(args[1].String())
			s := eng.sortOf(T)
			switch s {
			case SInt:
				return Value{T: T, Tm: IfVal(v.Tm)}
			case SBool:
				return Value{T: T, Tm: Eq(IfVal(v.Tm), IntLit(1))}
			}
			return Value{T: T, Tm: env.st.uf("iunbox_"+sanitize(string(s)), s, IfVal(v.Tm))}
		case "nrecv", "nsent":
			v := env.eval(args[0])
			env.st.chanTypeFact(v)
			nm := "NCR"
			if fnE.Op == "nsent" {
				nm = "NCS"
			}
			h := env.st.heapGet(chanCounterName(nm, v.T), ArraySort(SInt, SInt))
			return Value{T: mathInt, Tm: Select(h, v.Tm)}
		case "ncalls":
			// ghost call counter of a func-valued field or callee key
			return env.ncalls(args[0])
		case "dom":
			panic(specErr("dom() only in 'k in dom(m)'"))
		case "min":
			a, b := env.evalInt(args[0]), env.evalInt(args[1])
			return Value{T: mathInt, Tm: Ite(Le(a, b), a, b)}
		case "max":
			a, b := env.evalInt(args[0]), env.evalInt(args[1])
			return Value{T: mathInt, Tm: Ite(Ge(a, b), a, b)}
		}
		// pure function
		if pf := env.lookupPure(fnE.Op, ""); pf != nil {
			return env.applyPure(pf, args)
		}
		panic(specErr("unknown function %s in %s", fnE.Op, e))
	}
	if fnE.Kind == ESel && fnE.Args[0].Kind == EIdent {
		if pf := env.lookupPure(fnE.Op, fnE.Args[0].Op); pf != nil {
			return env.applyPure(pf, args)
		}
	}
	panic(specErr("unsupported call %s", e))
}

func (env *Env) lookupPure(name, pkg string) *PureFunc {
	eng := env.eng()
	if pkg == "" {
		if env.callee != nil {
			if pf := eng.specs.Pures[env.callee.PkgName+"."+name]; pf != nil {
				return pf
			}
		}
		if env.pkg != nil {
			if pf := eng.specs.Pures[env.pkg.Name()+"."+name]; pf != nil {
				return pf
			}
		}
		if pf := eng.specs.Pures["prelude."+name]; pf != nil {
			return pf
		}
		return nil
	}
	return eng.specs.Pures[pkg+"."+name]
}

func (env *Env) applyPure(pf *PureFunc, args []*Expr) Value {
	eng := env.eng()
	if len(args) != len(pf.Params) {
		panic(specErr("pure func %s: %d arguments, want %d", pf.Name, len(args), len(pf.Params)))
	}
	var vals []Value
	for _, a := range args {
		vals = append(vals, env.eval(a))
	}
	if pf.Body == nil {
		// uninterpreted
		var ts []Term
		var sorts []string
		for _, v := range vals {
			t := v.Tm
			if v.Ptr != nil {
				t = env.st.ptrTerm(v)
			}
			ts = append(ts, t)
			sorts = append(sorts, string(t.Sort))
		}
		RT := eng.resolveType(pf.Result, pf.PkgName)
		rs := eng.sortOf(RT)
		name := "pf_" + sanitize(pf.PkgName+"_"+pf.Name)
		eng.declare(name, fmt.Sprintf("(declare-fun %s (%s) %s)", name, strings.Join(sorts, " "), rs))
		VT := RT
		if pf.Result == "int" {
			VT = mathInt
		}
		if len(ts) == 0 {
			return Value{T: VT, Tm: Term{name, rs}}
		}
		return Value{T: VT, Tm: app(rs, name, ts...)}
	}
	if env.depth > 20 {
		panic(specErr("pure function expansion too deep (recursive?) at %s", pf.Name))
	}
	sub := *env
	sub.vars = map[string]Value{}
	for k, v := range env.vars {
		sub.vars[k] = v
	}
	for i, p := range pf.Params {
		sub.vars[p.Name] = vals[i]
	}
	sub.depth = env.depth + 1
	sub.fr = nil
	sub.res = nil
	// pure functions are resolved in their own package
	if p, ok := eng.ld.pkgByNm[pf.PkgName]; ok {
		sub.pkg = p.Types
	}
	cs := sub.callee
	sub.callee = nil
	v := sub.eval(pf.Body)
	sub.callee = cs
	env.defs = sub.defs
	return v
}

func (st *State) lenOf(v Value) Term {
	if v.T == nil {
		panic(specErr("len of untyped value"))
	}
	switch t := types.Unalias(v.T).Underlying().(type) {
	case *types.Basic:
		return StrLen(v.Tm)
	case *types.Slice:
		return SlLen(v.Tm)
	case *types.Array:
		return IntLit(t.Len())
	case *types.Map:
		return st.mapLen(v, t)
	case *types.Chan:
		return st.chanLen(v)
	case *types.Pointer:
		if arr, ok := types.Unalias(t.Elem()).Underlying().(*types.Array); ok {
			return IntLit(arr.Len())
		}
	}
	panic(specErr("len of %s", v.T))
}

// equalValsSpec: equality in specs (content equality for strings)
func (st *State) equalValsSpec(a, b Value) Term {
	if a.Tm.Sort == SStr {
		return st.strEq(a.Tm, b.Tm)
	}
	if a.Ptr != nil || b.Ptr != nil {
		return st.equalVals(a, b)
	}
	return Eq(a.Tm, b.Tm)
}

func (env *Env) ncalls(arg *Expr) Value {
	// ncalls(x.f) where f is a func-typed field, or ncalls("key")
	if arg.Kind == EStr {
		k, _ := strconv.Unquote(arg.Op)
		if sp := env.eng().specs.Funcs[k]; sp == nil || sp.Flags["counted"] == "" {
			// a counter nobody increments would make the clause vacuous
			panic(specErr("ncalls(%q): there is no contract flagged `counted` for that function", k))
		}
		t := env.st.heapGet("NC_"+sanitize(k), SInt)
		return Value{T: mathInt, Tm: t}
	}
	if arg.Kind == ESel {
		base := env.eval(arg.Args[0])
		p := env.st.asPointer(base)
		pt := types.Unalias(base.T).Underlying().(*types.Pointer)
		n := types.Unalias(pt.Elem()).(*types.Named)
		key := n.Obj().Pkg().Name() + "." + n.Obj().Name() + "." + arg.Op
		h := env.st.heapGet("NCF_"+sanitize(key), ArraySort(SInt, SInt))
		return Value{T: mathInt, Tm: Select(h, p.Ref)}
	}
	panic(specErr("ncalls(%s)", arg))
}

// addrOf: &x.f for a field f (possibly nested) of a struct reached through a pointer
func (env *Env) addrOf(e *Expr) Value {
	if e.Kind != ESel {
		panic(specErr("& is supported on field selections only: %s", e))
	}
	var base *Pointer
	var baseT types.Type
	inner := e.Args[0]
	if inner.Kind == ESel {
		// maybe a nested struct field: try address of the inner selection first when it is a struct value
		iv := func() (v Value, ok bool) {
			defer func() {
				if r := recover(); r != nil {
					ok = false
				}
			}()
			return env.addrOf(inner), true
		}
		if v, ok := iv(); ok {
			if pt, ok2 := types.Unalias(v.T).Underlying().(*types.Pointer); ok2 {
				if _, isStruct := types.Unalias(pt.Elem()).Underlying().(*types.Struct); isStruct {
					base = v.Ptr
					baseT = pt.Elem()
				}
			}
		}
	}
	if base == nil {
		x := env.eval(inner)
		pt, ok := types.Unalias(x.T).Underlying().(*types.Pointer)
		if !ok {
			panic(specErr("&%s: base is not a pointer", e))
		}
		base = env.st.asPointer(x)
		baseT = pt.Elem()
	}
	f, idx := findField(baseT, e.Op)
	if f == nil || len(idx) != 1 {
		panic(specErr("&%s: no such field", e))
	}
	np := base.extend(PStep{Field: idx[0], T: baseT})
	return Value{T: types.NewPointer(f.Type()), Ptr: np}
}
