package main

// Mapping of Go types to SMT sorts, zero values and type invariants.

import (
	"fmt"
	"go/types"
	"strings"
	"sync"

	"golang.org/x/tools/go/ssa"
)

type Engine struct {
	ld               *Loaded
	specs            *SpecDB
	decls            []Decl
	declIdx          map[string]bool
	structs          map[string]*structInfo // by sort name
	freshN           int
	typeIDs          map[string]int // dynamic type tags for interfaces
	typeByID         map[int]types.Type
	assumes          map[string]bool // global list of assumptions used (reported)
	unmod            map[string]bool // unmodelled calls
	inlined          map[string]bool
	trusted          map[string]bool // external/trusted specs used
	tier             string
	timeoutMs        int
	seed             int
	strLits          map[string]string
	chanTypeIDs      map[string]int
	chanTouch        map[*ssa.Function]int
	scratchSet       map[string]bool
	scratchSorts     map[string]Sort
	chanMu           sync.Mutex
	heapSorts        map[string]Sort
	externParamTypes map[string]types.Type
	loopCache        map[*ssa.Function]map[*ssa.BasicBlock]*loopInfo
	fnWriteCache     map[*ssa.Function]*writeSet
	fnWriteBusy      map[*ssa.Function]bool
	litStrs          map[string]string
	regions          map[string]int
	fieldOfHeap      map[string]string
}

func NewEngine(ld *Loaded, specs *SpecDB) *Engine {
	return &Engine{ld: ld, specs: specs, declIdx: map[string]bool{}, structs: map[string]*structInfo{}, typeIDs: map[string]int{}, typeByID: map[int]types.Type{},
		assumes: map[string]bool{}, unmod: map[string]bool{}, inlined: map[string]bool{}, trusted: map[string]bool{}, strLits: map[string]string{},
		heapSorts: map[string]Sort{}, externParamTypes: map[string]types.Type{}, loopCache: map[*ssa.Function]map[*ssa.BasicBlock]*loopInfo{},
		fnWriteCache: map[*ssa.Function]*writeSet{}, fnWriteBusy: map[*ssa.Function]bool{}, litStrs: map[string]string{}}
}

type structInfo struct {
	sort   Sort
	st     *types.Struct
	fields []string
	named  string
}

func sanitize(s string) string {
	var sb strings.Builder
	for _, c := range s {
		switch {
		case c >= 'a' && c <= 'z', c >= 'A' && c <= 'Z', c >= '0' && c <= '9', c == '_':
			sb.WriteRune(c)
		default:
			sb.WriteByte('_')
		}
	}
	return sb.String()
}

func (e *Engine) declare(name, text string, deps ...string) {
	if e.declIdx[name] {
		return
	}
	e.declIdx[name] = true
	e.decls = append(e.decls, Decl{Name: name, Text: text, Deps: deps})
}

func (e *Engine) fresh(prefix string, s Sort) Term {
	e.freshN++
	name := fmt.Sprintf("%s!%d", sanitize(prefix), e.freshN)
	e.declare(name, fmt.Sprintf("(declare-const %s %s)", name, s))
	return Term{name, s}
}

func (e *Engine) constNamed(name string, s Sort) Term {
	e.declare(name, fmt.Sprintf("(declare-const %s %s)", name, s))
	return Term{name, s}
}

func typeShortName(T types.Type) string {
	switch t := T.(type) {
	case *types.Named:
		n := t.Obj().Name()
		if t.Obj().Pkg() != nil {
			n = t.Obj().Pkg().Name() + "_" + n
		}
		if ta := t.TypeArgs(); ta != nil && ta.Len() > 0 {
			for i := 0; i < ta.Len(); i++ {
				n += "_" + sanitize(types.TypeString(ta.At(i), func(p *types.Package) string { return p.Name() }))
			}
		}
		return sanitize(n)
	case *types.Alias:
		return typeShortName(types.Unalias(t))
	case *types.Basic:
		if t.Kind() >= types.Bool && t.Kind() <= types.UnsafePointer {
			return types.Typ[t.Kind()].Name()
		}
	}
	return sanitize(types.TypeString(T, func(p *types.Package) string { return p.Name() }))
}

func (e *Engine) sortOf(T types.Type) Sort {
	T = types.Unalias(T)
	switch t := T.Underlying().(type) {
	case *types.Basic:
		switch {
		case t.Info()&types.IsBoolean != 0:
			return SBool
		case t.Info()&types.IsString != 0:
			return SStr
		case t.Info()&types.IsInteger != 0:
			return SInt
		case t.Info()&types.IsFloat != 0:
			return SF64
		case t.Kind() == types.UnsafePointer, t.Kind() == types.UntypedNil:
			return SInt
		}
		return SInt
	case *types.Pointer, *types.Map, *types.Chan, *types.Signature:
		return SInt
	case *types.Slice:
		return SSlice
	case *types.Interface:
		return SIface
	case *types.Array:
		return ArraySort(SInt, e.sortOf(t.Elem()))
	case *types.Struct:
		return e.structSort(T, t)
	case *types.Tuple:
		return SInt
	case *types.TypeParam:
		return SInt
	}
	panic(fmt.Sprintf("sortOf: unsupported type %s", T))
}

// sortOfSafe: sort name for struct types, "" otherwise
func (e *Engine) sortOfSafe(T types.Type) Sort {
	if _, ok := types.Unalias(T).Underlying().(*types.Struct); ok {
		return e.sortOf(T)
	}
	return ""
}

func (e *Engine) structSort(T types.Type, st *types.Struct) Sort {
	name := "S_" + typeShortName(T)
	if si := e.structs[name]; si != nil {
		return si.sort
	}
	si := &structInfo{sort: Sort(name), st: st, named: name}
	e.structs[name] = si
	var sb strings.Builder
	fmt.Fprintf(&sb, "(declare-datatypes ((%s 0)) (((mk_%s", name, name)
	var deps []string
	for i := 0; i < st.NumFields(); i++ {
		f := st.Field(i)
		fs := e.sortOf(f.Type())
		fn := f.Name()
		if fn == "_" {
			fn = fmt.Sprintf("blank%d", i)
		}
		si.fields = append(si.fields, fn)
		fmt.Fprintf(&sb, " (%s__%s %s)", name, sanitize(fn), fs)
		m := map[string]bool{}
		symbolsOf(string(fs), m)
		for s := range m {
			deps = append(deps, s)
		}
	}
	sb.WriteString("))))")
	e.declare(name, sb.String(), deps...)
	return si.sort
}

func (e *Engine) structInfoOf(T types.Type) *structInfo {
	st, ok := types.Unalias(T).Underlying().(*types.Struct)
	if !ok {
		return nil
	}
	s := e.structSort(T, st)
	return e.structs[string(s)]
}

func (si *structInfo) sel(i int, x Term, fs Sort) Term {
	return app(fs, fmt.Sprintf("%s__%s", si.named, sanitize(si.fields[i])), x)
}

func (e *Engine) structField(T types.Type, x Term, i int) Term {
	si := e.structInfoOf(T)
	return si.sel(i, x, e.sortOf(si.st.Field(i).Type()))
}

func (e *Engine) structUpdate(T types.Type, x Term, i int, v Term) Term {
	si := e.structInfoOf(T)
	args := make([]Term, si.st.NumFields())
	for k := range args {
		if k == i {
			args[k] = v
		} else {
			args[k] = si.sel(k, x, e.sortOf(si.st.Field(k).Type()))
		}
	}
	return app(si.sort, "mk_"+si.named, args...)
}

func (e *Engine) mkStruct(T types.Type, fields []Term) Term {
	si := e.structInfoOf(T)
	if len(fields) == 0 {
		return Term{"mk_" + si.named, si.sort}
	}
	return app(si.sort, "mk_"+si.named, fields...)
}

func constArray(s Sort, v Term) Term {
	return Term{fmt.Sprintf("((as const %s) %s)", s, v.S), s}
}

var emptyStr = Term{"(mkstr ((as const (Array Int Int)) 0) 0 0 0)", SStr}
var nilSlice = Term{"(mkslice 0 0 0 0)", SSlice}
var nilIface = Term{"(mkiface 0 0)", SIface}

func (e *Engine) zeroOf(T types.Type) Term {
	T = types.Unalias(T)
	switch t := T.Underlying().(type) {
	case *types.Basic:
		switch {
		case t.Info()&types.IsBoolean != 0:
			return TFalse
		case t.Info()&types.IsString != 0:
			return emptyStr
		case t.Info()&types.IsFloat != 0:
			return e.f64Const("0")
		}
		return IntLit(0)
	case *types.Pointer, *types.Map, *types.Chan, *types.Signature:
		return IntLit(0)
	case *types.Slice:
		return nilSlice
	case *types.Interface:
		return nilIface
	case *types.Array:
		return constArray(e.sortOf(T), e.zeroOf(t.Elem()))
	case *types.Struct:
		fs := make([]Term, t.NumFields())
		for i := range fs {
			fs[i] = e.zeroOf(t.Field(i).Type())
		}
		return e.mkStruct(T, fs)
	}
	return IntLit(0)
}

func (e *Engine) f64Const(lit string) Term {
	name := "f64c_" + sanitize(lit)
	e.declare(name, fmt.Sprintf("(declare-const %s F64)", name))
	return Term{name, SF64}
}

func intRange(t *types.Basic) (lo, hi string, ok bool) {
	switch t.Kind() {
	case types.Int, types.Int64, types.UntypedInt:
		return "(- 9223372036854775808)", "9223372036854775807", true
	case types.Int32, types.UntypedRune:
		return "(- 2147483648)", "2147483647", true
	case types.Int16:
		return "(- 32768)", "32767", true
	case types.Int8:
		return "(- 128)", "127", true
	case types.Uint, types.Uint64, types.Uintptr:
		return "0", "18446744073709551615", true
	case types.Uint32:
		return "0", "4294967295", true
	case types.Uint16:
		return "0", "65535", true
	case types.Uint8:
		return "0", "255", true
	}
	return "", "", false
}

func intBits(t *types.Basic) (bits int, signed bool) {
	switch t.Kind() {
	case types.Int, types.Int64, types.UntypedInt:
		return 64, true
	case types.Int32, types.UntypedRune:
		return 32, true
	case types.Int16:
		return 16, true
	case types.Int8:
		return 8, true
	case types.Uint, types.Uint64, types.Uintptr:
		return 64, false
	case types.Uint32:
		return 32, false
	case types.Uint16:
		return 16, false
	case types.Uint8:
		return 8, false
	}
	return 64, true
}

func pow2(n int) string {
	// decimal string of 2^n for n <= 64
	tbl := map[int]string{8: "256", 16: "65536", 32: "4294967296", 64: "18446744073709551616", 7: "128", 15: "32768", 31: "2147483648", 63: "9223372036854775808"}
	if s, ok := tbl[n]; ok {
		return s
	}
	if n < 63 {
		return fmt.Sprint(int64(1) << uint(n))
	}
	panic("pow2")
}

// typeInv gives the representation invariant of a value of Go type T held in term x.
// depth limits struct recursion.
func (e *Engine) typeInv(T types.Type, x Term) Term {
	T = types.Unalias(T)
	switch t := T.Underlying().(type) {
	case *types.Basic:
		if t.Info()&types.IsInteger != 0 {
			lo, hi, ok := intRange(t)
			if ok {
				return And(Le(Term{lo, SInt}, x), Le(x, Term{hi, SInt}))
			}
		}
		if t.Info()&types.IsString != 0 {
			// lengths are bounded by the address space (2^56 is generous on every supported platform)
			// (no upper bound on string lengths: the 2^56 constant used for slices makes z3 give up on quantified string goals)
			return And(Ge(StrLen(x), IntLit(0)), Ge(StrOff(x), IntLit(0)), Le(StrLen(x), Term{"9223372036854775807", SInt}))
		}
		return TTrue
	case *types.Pointer, *types.Map, *types.Chan:
		return Ge(x, IntLit(0))
	case *types.Slice:
		return And(Ge(SlRef(x), IntLit(0)), Ge(SlOff(x), IntLit(0)), Ge(SlLen(x), IntLit(0)), Le(SlLen(x), SlCap(x)),
			Le(SlCap(x), Term{"72057594037927936", SInt}),
			Implies(Eq(SlRef(x), IntLit(0)), Eq(SlCap(x), IntLit(0))))
	case *types.Struct:
		var cs []Term
		for i := 0; i < t.NumFields(); i++ {
			cs = append(cs, e.typeInv(t.Field(i).Type(), e.structField(T, x, i)))
		}
		return And(cs...)
	case *types.Interface:
		return And(Ge(IfType(x), IntLit(0)), Implies(Eq(IfType(x), IntLit(0)), Eq(IfVal(x), IntLit(0))))
	}
	return TTrue
}

func (e *Engine) regionID(cls string) int {
	if e.regions == nil {
		e.regions = map[string]int{}
	}
	if id, ok := e.regions[cls]; ok {
		return id
	}
	id := len(e.regions) + 1
	e.regions[cls] = id
	return id
}

func (e *Engine) typeID(T types.Type) int {
	k := types.TypeString(T, nil)
	if id, ok := e.typeIDs[k]; ok {
		return id
	}
	id := len(e.typeIDs) + 1
	e.typeIDs[k] = id
	e.typeByID[id] = T
	return id
}

func isInteger(T types.Type) bool {
	b, ok := types.Unalias(T).Underlying().(*types.Basic)
	return ok && b.Info()&types.IsInteger != 0
}
func isString(T types.Type) bool {
	b, ok := types.Unalias(T).Underlying().(*types.Basic)
	return ok && b.Info()&types.IsString != 0
}
func isBool(T types.Type) bool {
	b, ok := types.Unalias(T).Underlying().(*types.Basic)
	return ok && b.Info()&types.IsBoolean != 0
}
func isFloat(T types.Type) bool {
	b, ok := types.Unalias(T).Underlying().(*types.Basic)
	return ok && b.Info()&types.IsFloat != 0
}
func isPointer(T types.Type) bool {
	_, ok := types.Unalias(T).Underlying().(*types.Pointer)
	return ok
}
func isSlice(T types.Type) bool {
	_, ok := types.Unalias(T).Underlying().(*types.Slice)
	return ok
}
func isInterface(T types.Type) bool {
	_, ok := types.Unalias(T).Underlying().(*types.Interface)
	return ok
}
func elemOf(T types.Type) types.Type {
	switch t := types.Unalias(T).Underlying().(type) {
	case *types.Pointer:
		return t.Elem()
	case *types.Slice:
		return t.Elem()
	case *types.Array:
		return t.Elem()
	case *types.Map:
		return t.Elem()
	case *types.Chan:
		return t.Elem()
	case *types.Basic:
		if t.Info()&types.IsString != 0 {
			return types.Typ[types.Uint8]
		}
	}
	panic(fmt.Sprintf("elemOf %s", T))
}

// heap variable names
// memName: the heap of backing arrays is partitioned by Go element type (a backing array has exactly
// one element type; unsafe reinterpretation is outside the model)
func (e *Engine) memName(elem types.Type) (string, Sort) {
	s := e.sortOf(elem)
	return "M_" + typeShortName(types.Unalias(elem)), ArraySort(SInt, ArraySort(SInt, s))
}
func (e *Engine) boxName(elem types.Type) (string, Sort) {
	s := e.sortOf(elem)
	return "B_" + sanitize(string(s)), ArraySort(SInt, s)
}
func (e *Engine) fieldHeapName(T types.Type, i int) (string, Sort) {
	si := e.structInfoOf(T)
	n := "H_" + si.named + "_" + sanitize(si.fields[i])
	if e.fieldOfHeap == nil {
		e.fieldOfHeap = map[string]string{}
	}
	e.fieldOfHeap[n] = si.fields[i]
	return n, ArraySort(SInt, e.sortOf(si.st.Field(i).Type()))
}
