package main

import (
	"encoding/json"
	"fmt"
	"os"
	"path/filepath"
	"strings"
)

type ReplayFile struct {
	Property   string            `json:"property"`
	Obligation string            `json:"obligation"`
	Kind       string            `json:"kind"`
	Function   string            `json:"function"`
	At         string            `json:"at"`
	Status     string            `json:"solver_status"`
	Solver     string            `json:"solver"`
	Path       []string          `json:"path"`
	Inputs     map[string]string `json:"inputs,omitempty"`
	Model      string            `json:"model,omitempty"`
	SolverOut  string            `json:"solver_output"`
	Replay     string            `json:"replay_result,omitempty"`
}

func writeReplay(cfg *Config, ld *Loaded, name string, o *Obligation) string {
	dir := filepath.Join(cfg.Verif, "replays", cfg.Prop)
	os.MkdirAll(dir, 0o755)
	fn := sanitize(name)
	if len(fn) > 120 {
		fn = fn[:120]
	}
	path := filepath.Join(dir, fn+".json")
	rf := &ReplayFile{Property: cfg.Prop, Obligation: name, Kind: o.Kind, Function: o.Unit.key, At: ld.posText(o.Pos), Status: o.Result.Status,
		Solver: o.Result.Solver, Path: o.Trace, SolverOut: trunc(o.Result.Raw, 4000)}
	if o.Result.Model != "" {
		rf.Model = trunc(o.Result.Model, 20000)
		rf.Inputs = decodeInputs(o)
	}
	data, _ := json.MarshalIndent(rf, "", " ")
	os.WriteFile(path, data, 0o644)
	pendingReplays[path] = o
	return path
}

// decodeInputs maps the solver model back to Go-level values of the function's parameters
func decodeInputs(o *Obligation) map[string]string {
	m := parseModel(o.Result.Model)
	out := map[string]string{}
	for name, v := range o.Entry {
		if v.Tm.IsZero() {
			continue
		}
		if val, ok := m[v.Tm.S]; ok {
			out[name] = val
		}
	}
	return out
}

func tryReplay(cfg *Config, ld *Loaded, replayPath string) bool {
	return replayOnRealCode(cfg, ld, replayPath)
}

func replayMain(cfg *Config, path string) int {
	data, err := os.ReadFile(path)
	if err != nil {
		fmt.Println("cannot read replay file:", err)
		return 2
	}
	var rf ReplayFile
	if err := json.Unmarshal(data, &rf); err != nil {
		fmt.Println("bad replay file:", err)
		return 2
	}
	fmt.Printf("obligation: %s\nfunction: %s at %s\nsolver: %s (%s)\n", rf.Obligation, rf.Function, rf.At, rf.Status, rf.Solver)
	for _, p := range rf.Path {
		fmt.Println("  path:", p)
	}
	for k, v := range rf.Inputs {
		fmt.Printf("  input %s = %s\n", k, v)
	}
	if rf.Replay != "" {
		fmt.Println("replay on the real code:", rf.Replay)
	}
	// re-run the property check restricted to the function
	cfg.Prop = rf.Property
	cfg.Funcs = []string{rf.Function}
	return checkMain(cfg)
}

func selftestMain(cfg *Config, dir string) int {
	fmt.Println("selftest not implemented yet")
	return 2
}

var _ = strings.TrimSpace
