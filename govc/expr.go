package main

// Contract expression language: lexer and parser.
//
//   e ::= forall x T, y T :: e | exists ... :: e
//       | e ==> e | e <==> e | e ? e : e
//       | e || e | e && e | e cmp e | e + e | e - e | e ++ e | e * e | e / e | e % e
//       | !e | -e | e.f | e[i] | e[a:b] | f(e,...) | old(e) | result | lit | (e)

import (
	"fmt"
	"strconv"
	"strings"
	"unicode"
)

type EKind int

const (
	EIdent EKind = iota
	ENum
	EChar
	EStr
	EBin
	EUn
	ECall
	EIndex
	ESlice
	ESel
	EQuant
	ECond
	ETypeLit // a type used as expression (conversions): []byte(x), *T
)

type BoundVar struct {
	Name string
	Type string // type text
}

type Expr struct {
	Kind  EKind
	Op    string  // operator / identifier / literal text / "forall"|"exists"
	Args  []*Expr // operands
	Bound []BoundVar
	Pos   int
}

func (e *Expr) String() string {
	switch e.Kind {
	case EIdent, ENum, EChar, EStr, ETypeLit:
		return e.Op
	case EBin:
		return "(" + e.Args[0].String() + " " + e.Op + " " + e.Args[1].String() + ")"
	case EUn:
		return e.Op + e.Args[0].String()
	case ECall:
		var as []string
		for _, a := range e.Args[1:] {
			as = append(as, a.String())
		}
		return e.Args[0].String() + "(" + strings.Join(as, ", ") + ")"
	case EIndex:
		return e.Args[0].String() + "[" + e.Args[1].String() + "]"
	case ESlice:
		lo, hi := "", ""
		if e.Args[1] != nil {
			lo = e.Args[1].String()
		}
		if e.Args[2] != nil {
			hi = e.Args[2].String()
		}
		return e.Args[0].String() + "[" + lo + ":" + hi + "]"
	case ESel:
		return e.Args[0].String() + "." + e.Op
	case EQuant:
		var bs []string
		for _, b := range e.Bound {
			bs = append(bs, b.Name+" "+b.Type)
		}
		return "(" + e.Op + " " + strings.Join(bs, ", ") + " :: " + e.Args[0].String() + ")"
	case ECond:
		return "(" + e.Args[0].String() + " ? " + e.Args[1].String() + " : " + e.Args[2].String() + ")"
	}
	return "?"
}

type stok struct {
	kind string // "id", "num", "char", "str", "op", "eof"
	text string
	pos  int
}

func lexSpec(src string) ([]stok, error) {
	var toks []stok
	i := 0
	for i < len(src) {
		c := src[i]
		switch {
		case c == ' ' || c == '\t' || c == '\n' || c == '\r':
			i++
		case unicode.IsLetter(rune(c)) || c == '_' || c == '$':
			j := i
			for j < len(src) && (unicode.IsLetter(rune(src[j])) || unicode.IsDigit(rune(src[j])) || src[j] == '_' || src[j] == '$' || src[j] == '#') {
				j++
			}
			toks = append(toks, stok{"id", src[i:j], i})
			i = j
		case c >= '0' && c <= '9':
			j := i
			for j < len(src) && (unicode.IsLetter(rune(src[j])) || unicode.IsDigit(rune(src[j])) || src[j] == '_') {
				j++
			}
			toks = append(toks, stok{"num", src[i:j], i})
			i = j
		case c == '\'':
			j := i + 1
			for j < len(src) && src[j] != '\'' {
				if src[j] == '\\' {
					j++
				}
				j++
			}
			if j >= len(src) {
				return nil, fmt.Errorf("unterminated char literal at %d", i)
			}
			toks = append(toks, stok{"char", src[i : j+1], i})
			i = j + 1
		case c == '"':
			j := i + 1
			for j < len(src) && src[j] != '"' {
				if src[j] == '\\' {
					j++
				}
				j++
			}
			if j >= len(src) {
				return nil, fmt.Errorf("unterminated string literal at %d", i)
			}
			toks = append(toks, stok{"str", src[i : j+1], i})
			i = j + 1
		default:
			ops := []string{"<==>", "===", "==>", "::", ":=", "==", "!=", "<=", ">=", "&&", "||", "++", "<<", ">>", "&^"}
			matched := false
			for _, op := range ops {
				if strings.HasPrefix(src[i:], op) {
					toks = append(toks, stok{"op", op, i})
					i += len(op)
					matched = true
					break
				}
			}
			if !matched {
				toks = append(toks, stok{"op", string(c), i})
				i++
			}
		}
	}
	toks = append(toks, stok{"eof", "", len(src)})
	return toks, nil
}

type specParser struct {
	toks []stok
	p    int
	src  string
}

func (sp *specParser) peek() stok { return sp.toks[sp.p] }
func (sp *specParser) next() stok {
	t := sp.toks[sp.p]
	if sp.p < len(sp.toks)-1 {
		sp.p++
	}
	return t
}
func (sp *specParser) isOp(s string) bool {
	t := sp.peek()
	return t.kind == "op" && t.text == s
}
func (sp *specParser) isID(s string) bool {
	t := sp.peek()
	return t.kind == "id" && t.text == s
}
func (sp *specParser) expectOp(s string) {
	if !sp.isOp(s) {
		panic(fmt.Errorf("expected %q at %d in %q (got %q)", s, sp.peek().pos, sp.src, sp.peek().text))
	}
	sp.next()
}

func ParseExpr(src string) (e *Expr, err error) {
	toks, err := lexSpec(src)
	if err != nil {
		return nil, err
	}
	sp := &specParser{toks: toks, src: src}
	defer func() {
		if r := recover(); r != nil {
			if re, ok := r.(error); ok {
				err = re
				return
			}
			panic(r)
		}
	}()
	e = sp.parseExpr()
	if sp.peek().kind != "eof" {
		return nil, fmt.Errorf("unexpected %q at %d in %q", sp.peek().text, sp.peek().pos, src)
	}
	return e, nil
}

func (sp *specParser) parseExpr() *Expr {
	if sp.isID("forall") || sp.isID("exists") {
		q := sp.next().text
		var bound []BoundVar
		for {
			name := sp.next()
			if name.kind != "id" {
				panic(fmt.Errorf("expected bound variable name at %d in %q", name.pos, sp.src))
			}
			typ := sp.parseTypeText()
			bound = append(bound, BoundVar{name.text, typ})
			if sp.isOp(",") {
				sp.next()
				continue
			}
			break
		}
		sp.expectOp("::")
		body := sp.parseExpr()
		return &Expr{Kind: EQuant, Op: q, Bound: bound, Args: []*Expr{body}}
	}
	return sp.parseImpl()
}

// parseTypeText consumes a Go type expression and returns its text.
func (sp *specParser) parseTypeText() string {
	start := sp.peek().pos
	sp.skipType()
	end := sp.peek().pos
	return strings.TrimSpace(sp.src[start:end])
}

func (sp *specParser) skipType() {
	t := sp.peek()
	switch {
	case t.kind == "op" && t.text == "*":
		sp.next()
		sp.skipType()
	case t.kind == "op" && t.text == "[":
		sp.next()
		for !sp.isOp("]") {
			sp.next()
		}
		sp.next()
		sp.skipType()
	case t.kind == "id" && t.text == "map":
		sp.next()
		sp.expectOp("[")
		sp.skipType()
		sp.expectOp("]")
		sp.skipType()
	case t.kind == "id" && t.text == "func":
		sp.next()
		sp.expectOp("(")
		depth := 1
		for depth > 0 {
			if sp.isOp("(") {
				depth++
			} else if sp.isOp(")") {
				depth--
			}
			sp.next()
		}
		// optional result type
		if sp.peek().kind == "id" || sp.isOp("*") || sp.isOp("[") {
			sp.skipType()
		}
	case t.kind == "id":
		sp.next()
		if sp.isOp(".") {
			sp.next()
			sp.next()
		}
	default:
		panic(fmt.Errorf("bad type at %d in %q", t.pos, sp.src))
	}
}

func (sp *specParser) parseImpl() *Expr {
	l := sp.parseOr()
	if sp.isOp("==>") {
		sp.next()
		r := sp.parseImplRHS()
		return &Expr{Kind: EBin, Op: "==>", Args: []*Expr{l, r}}
	}
	if sp.isOp("<==>") {
		sp.next()
		var r *Expr
		if sp.isID("forall") || sp.isID("exists") {
			r = sp.parseExpr()
		} else {
			r = sp.parseOr()
		}
		return &Expr{Kind: EBin, Op: "<==>", Args: []*Expr{l, r}}
	}
	if sp.isOp("?") {
		sp.next()
		a := sp.parseExpr()
		sp.expectOp(":")
		b := sp.parseExpr()
		return &Expr{Kind: ECond, Args: []*Expr{l, a, b}}
	}
	return l
}

func (sp *specParser) parseImplRHS() *Expr {
	if sp.isID("forall") || sp.isID("exists") {
		return sp.parseExpr()
	}
	return sp.parseImpl()
}

func (sp *specParser) parseOr() *Expr {
	l := sp.parseAnd()
	for sp.isOp("||") {
		sp.next()
		r := sp.parseAnd()
		l = &Expr{Kind: EBin, Op: "||", Args: []*Expr{l, r}}
	}
	return l
}

func (sp *specParser) parseAnd() *Expr {
	l := sp.parseCmp()
	for sp.isOp("&&") {
		sp.next()
		var r *Expr
		if sp.isID("forall") || sp.isID("exists") {
			r = sp.parseExpr()
		} else {
			r = sp.parseCmp()
		}
		l = &Expr{Kind: EBin, Op: "&&", Args: []*Expr{l, r}}
	}
	return l
}

func (sp *specParser) parseCmp() *Expr {
	l := sp.parseAdd()
	for {
		t := sp.peek()
		if t.kind == "op" && (t.text == "==" || t.text == "===" || t.text == "!=" || t.text == "<" || t.text == "<=" || t.text == ">" || t.text == ">=") {
			sp.next()
			r := sp.parseAdd()
			l = &Expr{Kind: EBin, Op: t.text, Args: []*Expr{l, r}}
			continue
		}
		if t.kind == "id" && t.text == "in" {
			sp.next()
			r := sp.parseAdd()
			l = &Expr{Kind: EBin, Op: "in", Args: []*Expr{l, r}}
			continue
		}
		return l
	}
}

func (sp *specParser) parseAdd() *Expr {
	l := sp.parseMul()
	for {
		t := sp.peek()
		if t.kind == "op" && (t.text == "+" || t.text == "-" || t.text == "++" || t.text == "|" || t.text == "^") {
			sp.next()
			r := sp.parseMul()
			l = &Expr{Kind: EBin, Op: t.text, Args: []*Expr{l, r}}
			continue
		}
		return l
	}
}

func (sp *specParser) parseMul() *Expr {
	l := sp.parseUnary()
	for {
		t := sp.peek()
		if t.kind == "op" && (t.text == "*" || t.text == "/" || t.text == "%" || t.text == "<<" || t.text == ">>" || t.text == "&") {
			sp.next()
			r := sp.parseUnary()
			l = &Expr{Kind: EBin, Op: t.text, Args: []*Expr{l, r}}
			continue
		}
		return l
	}
}

func (sp *specParser) parseUnary() *Expr {
	if sp.isOp("!") {
		sp.next()
		return &Expr{Kind: EUn, Op: "!", Args: []*Expr{sp.parseUnary()}}
	}
	if sp.isOp("-") {
		sp.next()
		return &Expr{Kind: EUn, Op: "-", Args: []*Expr{sp.parseUnary()}}
	}
	if sp.isOp("*") {
		sp.next()
		return &Expr{Kind: EUn, Op: "*", Args: []*Expr{sp.parseUnary()}}
	}
	if sp.isOp("&") {
		sp.next()
		return &Expr{Kind: EUn, Op: "&", Args: []*Expr{sp.parseUnary()}}
	}
	return sp.parsePostfix()
}

func (sp *specParser) parsePostfix() *Expr {
	e := sp.parsePrimary()
	for {
		switch {
		case sp.isOp("."):
			sp.next()
			t := sp.next()
			if t.kind != "id" && t.kind != "num" && !(t.kind == "op" && t.text == "*") {
				panic(fmt.Errorf("expected selector at %d in %q", t.pos, sp.src))
			}
			e = &Expr{Kind: ESel, Op: t.text, Args: []*Expr{e}}
		case sp.isOp("["):
			sp.next()
			var lo, hi *Expr
			if sp.isOp(":") {
				sp.next()
				if !sp.isOp("]") {
					hi = sp.parseExpr()
				}
				sp.expectOp("]")
				e = &Expr{Kind: ESlice, Args: []*Expr{e, nil, hi}}
				continue
			}
			lo = sp.parseExprNoCond()
			if sp.isOp(":") {
				sp.next()
				if !sp.isOp("]") {
					hi = sp.parseExpr()
				}
				sp.expectOp("]")
				e = &Expr{Kind: ESlice, Args: []*Expr{e, lo, hi}}
				continue
			}
			sp.expectOp("]")
			e = &Expr{Kind: EIndex, Args: []*Expr{e, lo}}
		case sp.isOp("("):
			sp.next()
			args := []*Expr{e}
			for !sp.isOp(")") {
				args = append(args, sp.parseExpr())
				if sp.isOp(",") {
					sp.next()
				}
			}
			sp.expectOp(")")
			e = &Expr{Kind: ECall, Args: args}
		default:
			return e
		}
	}
}

// parseExprNoCond parses an expression without a top-level ?: (so that s[a:b] works)
func (sp *specParser) parseExprNoCond() *Expr {
	l := sp.parseOr()
	if sp.isOp("==>") {
		sp.next()
		r := sp.parseImplRHS()
		return &Expr{Kind: EBin, Op: "==>", Args: []*Expr{l, r}}
	}
	return l
}

func (sp *specParser) parsePrimary() *Expr {
	t := sp.peek()
	switch t.kind {
	case "id":
		sp.next()
		return &Expr{Kind: EIdent, Op: t.text, Pos: t.pos}
	case "num":
		sp.next()
		return &Expr{Kind: ENum, Op: t.text}
	case "char":
		sp.next()
		return &Expr{Kind: EChar, Op: t.text}
	case "str":
		sp.next()
		return &Expr{Kind: EStr, Op: t.text}
	case "op":
		if t.text == "(" {
			sp.next()
			// type conversion forms like (*T)(x) are not supported; plain parenthesised expr
			e := sp.parseExpr()
			sp.expectOp(")")
			return e
		}
		if t.text == "[" {
			// type literal such as []byte(x)
			txt := sp.parseTypeText()
			return &Expr{Kind: ETypeLit, Op: txt}
		}
	}
	panic(fmt.Errorf("unexpected %q at %d in %q", t.text, t.pos, sp.src))
}

func parseNumLit(s string) (string, error) {
	s = strings.ReplaceAll(s, "_", "")
	if strings.HasPrefix(s, "0x") || strings.HasPrefix(s, "0X") {
		n, err := strconv.ParseUint(s[2:], 16, 64)
		if err != nil {
			return "", err
		}
		return strconv.FormatUint(n, 10), nil
	}
	if strings.HasPrefix(s, "0b") {
		n, err := strconv.ParseUint(s[2:], 2, 64)
		if err != nil {
			return "", err
		}
		return strconv.FormatUint(n, 10), nil
	}
	for _, c := range s {
		if c < '0' || c > '9' {
			return "", fmt.Errorf("bad number %q", s)
		}
	}
	return s, nil
}
