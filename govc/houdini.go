package main

// Houdini-style inference of simple loop invariants (for the safety obligations): candidate
// conjuncts over the cells assigned in a loop are assumed at the loop head, the body is executed,
// and every candidate that cannot be re-established at a back edge (or does not hold on entry) is
// dropped until a fixpoint. Only the surviving, checked conjunction is used.

import (
	"sync"
	"bytes"
	"context"
	"fmt"
	"go/types"
	"os"
	"os/exec"
	"path/filepath"
	"sort"
	"strings"
	"time"

	"golang.org/x/tools/go/ssa"
)

type candidate struct {
	name string
	eval func(st *State) (Term, bool)
}

type houdiniRun struct {
	header *ssa.BasicBlock
	depth  int
	states []*State
}

func (st *State) cellTerm(c *Cell) (Term, bool) {
	v, ok := st.cellVal[c]
	if !ok || v.Tm.IsZero() || v.Ptr != nil {
		return Term{}, false
	}
	return v.Tm, true
}

// genCandidates builds candidate invariants. pre is the state before the havoc.
func (st *State) genCandidates(li *loopInfo, ws *writeSet) []candidate {
	fr := st.frame
	var cands []candidate
	type cinfo struct {
		c      *Cell
		hav    bool
		name   string
		entry  Term
		isInt  bool
		isStr  bool
		isSl   bool
	}
	var cells []cinfo
	var allocs []*ssa.Alloc
	for a := range fr.cells {
		allocs = append(allocs, a)
	}
	sort.Slice(allocs, func(i, j int) bool {
		if allocs[i].Pos() != allocs[j].Pos() {
			return allocs[i].Pos() < allocs[j].Pos()
		}
		return allocs[i].Name() < allocs[j].Name()
	})
	for _, a := range allocs {
		c := fr.cells[a]
		t, ok := st.cellTerm(c)
		if !ok {
			continue
		}
		ci := cinfo{c: c, hav: ws.cells[a], name: c.Name, entry: t}
		if ci.name == "" {
			ci.name = a.Name()
		}
		switch {
		case isInteger(c.T):
			ci.isInt = true
		case isString(c.T):
			ci.isStr = true
		case isSlice(c.T):
			ci.isSl = true
		default:
			if !ci.hav {
				continue
			}
		}
		cells = append(cells, ci)
	}
	add := func(name string, f func(st *State) (Term, bool)) {
		cands = append(cands, candidate{name, f})
	}
	lenOf := func(ci cinfo, t Term) Term {
		if ci.isStr {
			return StrLen(t)
		}
		return SlLen(t)
	}
	for _, v := range cells {
		v := v
		if !v.hav {
			continue
		}
		if v.isInt {
			add(v.name+">=entry", func(s *State) (Term, bool) {
				t, ok := s.cellTerm(v.c)
				return Ge(t, v.entry), ok
			})
			add(v.name+"<=entry", func(s *State) (Term, bool) {
				t, ok := s.cellTerm(v.c)
				return Le(t, v.entry), ok
			})
			add(v.name+">=0", func(s *State) (Term, bool) {
				t, ok := s.cellTerm(v.c)
				return Ge(t, IntLit(0)), ok
			})
			for _, k := range []int64{-1, 1, 2, 4, 8} {
				k := k
				_ = k
			}
			for _, w := range cells {
				w := w
				if w.c == v.c {
					continue
				}
				if w.isInt {
					add(v.name+"<="+w.name, func(s *State) (Term, bool) {
						a, ok1 := s.cellTerm(v.c)
						b, ok2 := s.cellTerm(w.c)
						return Le(a, b), ok1 && ok2
					})
					if !w.hav {
						add(v.name+">="+w.name, func(s *State) (Term, bool) {
							a, ok1 := s.cellTerm(v.c)
							b, ok2 := s.cellTerm(w.c)
							return Ge(a, b), ok1 && ok2
						})
					}
				}
				if w.isStr || w.isSl {
					add(v.name+"<=len("+w.name+")", func(s *State) (Term, bool) {
						a, ok1 := s.cellTerm(v.c)
						b, ok2 := s.cellTerm(w.c)
						return Le(a, lenOf(w, b)), ok1 && ok2
					})
					add(v.name+"<len("+w.name+")", func(s *State) (Term, bool) {
						a, ok1 := s.cellTerm(v.c)
						b, ok2 := s.cellTerm(w.c)
						return Lt(a, lenOf(w, b)), ok1 && ok2
					})
				}
			}
			// constants from the loop guard
			for _, k := range guardConstants(li) {
				k := k
				add(fmt.Sprintf("%s<=%d", v.name, k), func(s *State) (Term, bool) {
					t, ok := s.cellTerm(v.c)
					return Le(t, IntLit(k)), ok
				})
				add(fmt.Sprintf("%s>=%d", v.name, k), func(s *State) (Term, bool) {
					t, ok := s.cellTerm(v.c)
					return Ge(t, IntLit(k)), ok
				})
			}
		} else if v.isStr {
			add("suffix("+v.name+")", func(s *State) (Term, bool) {
				t, ok := s.cellTerm(v.c)
				return And(Eq(StrArr(t), StrArr(v.entry)), Eq(StrOwn(t), StrOwn(v.entry)),
					Eq(Add(StrOff(t), StrLen(t)), Add(StrOff(v.entry), StrLen(v.entry))), Ge(StrOff(t), StrOff(v.entry))), ok
			})
			add("samearr("+v.name+")", func(s *State) (Term, bool) {
				t, ok := s.cellTerm(v.c)
				return And(Eq(StrArr(t), StrArr(v.entry)), Eq(StrOwn(t), StrOwn(v.entry))), ok
			})
			add("within("+v.name+")", func(s *State) (Term, bool) {
				t, ok := s.cellTerm(v.c)
				return And(Ge(StrOff(t), StrOff(v.entry)), Le(Add(StrOff(t), StrLen(t)), Add(StrOff(v.entry), StrLen(v.entry)))), ok
			})
		} else if v.isSl {
			add("sameref("+v.name+")", func(s *State) (Term, bool) {
				t, ok := s.cellTerm(v.c)
				return Eq(SlRef(t), SlRef(v.entry)), ok
			})
			add("suffix("+v.name+")", func(s *State) (Term, bool) {
				t, ok := s.cellTerm(v.c)
				return And(Eq(SlRef(t), SlRef(v.entry)), Eq(Add(SlOff(t), SlLen(t)), Add(SlOff(v.entry), SlLen(v.entry))),
					Eq(Add(SlOff(t), SlCap(t)), Add(SlOff(v.entry), SlCap(v.entry))), Ge(SlOff(t), SlOff(v.entry))), ok
			})
			add("len("+v.name+")>=entry", func(s *State) (Term, bool) {
				t, ok := s.cellTerm(v.c)
				return Ge(SlLen(t), SlLen(v.entry)), ok
			})
			add("same("+v.name+")", func(s *State) (Term, bool) {
				t, ok := s.cellTerm(v.c)
				return Eq(t, v.entry), ok
			})
			{
				// the append idiom: still the object the loop started with (same window), or one allocated since
				la := st.alloc
				add("appended("+v.name+")", func(s *State) (Term, bool) {
					t, ok := s.cellTerm(v.c)
					return And(Eq(SlOff(t), SlOff(v.entry)), Or(And(Eq(SlRef(t), SlRef(v.entry)), Eq(SlCap(t), SlCap(v.entry))), Gt(SlRef(t), la))), ok
				})
			}
			if st.entry != nil {
				ea := st.entry.alloc
				add("fresh("+v.name+")", func(s *State) (Term, bool) {
					t, ok := s.cellTerm(v.c)
					return Or(Gt(SlRef(t), ea), Eq(SlRef(t), IntLit(0))), ok
				})
			}
		} else {
			add("same("+v.name+")", func(s *State) (Term, bool) {
				t, ok := s.cellTerm(v.c)
				return Eq(t, v.entry), ok
			})
		}
	}
	// heap frames: a heap variable assigned in the loop is unchanged, or unchanged outside the objects
	// designated by loop-invariant cells
	hnames := make([]string, 0, len(ws.heap))
	for n := range ws.heap {
		hnames = append(hnames, n)
	}
	e := st.eng()
	if ws.all {
		// unknown write set: every heap variable seen so far is a candidate for "unchanged by this loop"
		for n := range st.heap {
			if _, ok := ws.heap[n]; !ok && !ws.except[n] && n != "RO" {
				if srt, ok := e.heapSorts[n]; ok {
					ws.heap[n] = srt
					hnames = append(hnames, n)
				}
			}
		}
	}
	sort.Strings(hnames)
	for _, hn := range hnames {
		hn := hn
		hsort := ws.heap[hn]
		if hn == "RO" {
			continue
		}
		entry := st.heapGet(hn, hsort)
		if !strings.HasPrefix(string(hsort), "(Array Int ") {
			add("unchanged("+hn+")", func(s *State) (Term, bool) {
				cur, ok := s.heap[hn]
				return Eq(cur, entry), ok
			})
			continue
		}
		add("unchanged("+hn+")", func(s *State) (Term, bool) {
			cur, ok := s.heap[hn]
			return Eq(cur, entry), ok
		})
		// objects that existed when the loop was entered are untouched (bodies that write objects they allocate only)
		{
			la := st.alloc
			rr := Term{"r!q", SInt}
			add("loopmem("+hn+")", func(s *State) (Term, bool) {
				cur, ok := s.heap[hn]
				return Forall([]Term{rr}, Implies(And(Le(IntLit(0), rr), Le(rr, la)), Eq(Select(cur, rr), Select(entry, rr)))), ok
			})
		}
		// memory that existed at function entry is untouched (functions that write fresh memory only)
		if st.entry != nil {
			if fe, ok := st.entry.heap[hn]; ok {
				ea := st.entry.alloc
				rr := Term{"r!q", SInt}
				add("oldmem("+hn+")", func(s *State) (Term, bool) {
					cur, ok := s.heap[hn]
					return Forall([]Term{rr}, Implies(And(Le(IntLit(0), rr), Le(rr, ea)), Eq(Select(cur, rr), Select(fe, rr)))), ok
				})
			}
		}
		r := Term{"r!q", SInt}
		var refs []Term
		var rnames []string
		type rng struct{ ref, lo, hi Term }
		ranges := map[int]rng{}
		for _, a := range allocs {
			c := fr.cells[a]
			if ws.cells[a] {
				continue
			}
			v, ok := st.cellVal[c]
			if !ok || v.T == nil {
				continue
			}
			nm := c.Name
			if nm == "" {
				nm = a.Name()
			}
			if strings.HasPrefix(hn, "M_") && isSlice(v.T) && !v.Tm.IsZero() {
				mn, _ := e.memName(elemOf(v.T))
				if mn == hn {
					ranges[len(refs)] = rng{SlRef(v.Tm), SlOff(v.Tm), Add(SlOff(v.Tm), SlCap(v.Tm))}
					refs = append(refs, SlRef(v.Tm))
					rnames = append(rnames, nm)
				}
			} else if strings.HasPrefix(hn, "M_") && isPointer(v.T) {
				// slices held in fields of the object a loop-invariant pointer designates
				if stt, ok := types.Unalias(elemOf(v.T)).Underlying().(*types.Struct); ok {
					if pt, ok := st.tryPtrTerm(v); ok {
						for fi := 0; fi < stt.NumFields(); fi++ {
							ft := stt.Field(fi).Type()
							if !isSlice(ft) {
								continue
							}
							mn, _ := e.memName(elemOf(ft))
							fh, fsort := e.fieldHeapName(elemOf(v.T), fi)
							if mn != hn {
								continue
							}
							if _, hav := ws.heap[fh]; hav {
								continue
							}
							sv := Select(st.heapGet(fh, fsort), pt)
							ranges[len(refs)] = rng{SlRef(sv), SlOff(sv), Add(SlOff(sv), SlCap(sv))}
							refs = append(refs, SlRef(sv))
							rnames = append(rnames, nm+"."+stt.Field(fi).Name())
						}
					}
				}
			} else if strings.HasPrefix(hn, "H_") && isPointer(v.T) {
				if t, ok := st.tryPtrTerm(v); ok && strings.HasPrefix(hn, "H_"+string(e.sortOfSafe(elemOf(v.T)))+"_") {
					refs = append(refs, t)
					rnames = append(rnames, nm)
				}
			}
		}
		// slice parameters (entry values) of the function: the append idiom reassigns the parameter's cell, so the
		// frame is phrased over the entry value: other old objects untouched; the entry object only changes in [len, cap)
		if strings.HasPrefix(hn, "M_") && st.entry != nil {
			if fe, ok := st.entry.heap[hn]; ok {
				ea := st.entry.alloc
				for _, pv := range fr.fn.Params {
					v, ok := fr.regs[pv]
					if !ok || !isSlice(v.T) || v.Tm.IsZero() {
						continue
					}
					if mn, _ := e.memName(elemOf(v.T)); mn != hn {
						continue
					}
					pref, plo, phi := SlRef(v.Tm), Add(SlOff(v.Tm), SlLen(v.Tm)), Add(SlOff(v.Tm), SlCap(v.Tm))
					ixq := Term{"i!q", SInt}
					add("paramframe("+hn+";"+pv.Name()+")", func(s *State) (Term, bool) {
						cur, ok := s.heap[hn]
						return Forall([]Term{r}, Implies(And(Le(IntLit(0), r), Le(r, ea), Ne(r, pref)), Eq(Select(cur, r), Select(fe, r)))), ok
					})
					add("paramtail("+hn+";"+pv.Name()+")", func(s *State) (Term, bool) {
						cur, ok := s.heap[hn]
						return Forall([]Term{ixq}, Implies(Or(Lt(ixq, plo), Ge(ixq, phi)), Eq(Select(Select(cur, pref), ixq), Select(Select(fe, pref), ixq)))), ok
					})
				}
			}
		}
		for i := range refs {
			ref := refs[i]
			add("frame("+hn+";"+rnames[i]+")", func(s *State) (Term, bool) {
				cur, ok := s.heap[hn]
				return Forall([]Term{r}, Implies(Ne(r, ref), Eq(Select(cur, r), Select(entry, r)))), ok
			})
			if st.entry != nil {
				if fe, ok := st.entry.heap[hn]; ok {
					ea := st.entry.alloc
					add("oldframe("+hn+";"+rnames[i]+")", func(s *State) (Term, bool) {
						cur, ok := s.heap[hn]
						return Forall([]Term{r}, Implies(And(Le(IntLit(0), r), Le(r, ea), Ne(r, ref)), Eq(Select(cur, r), Select(fe, r)))), ok
					})
				}
			}
		}
		for i := range refs {
			rg, ok := ranges[i]
			if !ok {
				continue
			}
			ix := Term{"i!q", SInt}
			add("rangeframe("+hn+";"+rnames[i]+")", func(s *State) (Term, bool) {
				cur, ok := s.heap[hn]
				return Forall([]Term{ix}, Implies(Or(Lt(ix, rg.lo), Ge(ix, rg.hi)), Eq(Select(Select(cur, rg.ref), ix), Select(Select(entry, rg.ref), ix)))), ok
			})
		}
		if len(refs) == 2 {
			add("frame("+hn+";"+rnames[0]+","+rnames[1]+")", func(s *State) (Term, bool) {
				cur, ok := s.heap[hn]
				return Forall([]Term{r}, Implies(And(Ne(r, refs[0]), Ne(r, refs[1])), Eq(Select(cur, r), Select(entry, r)))), ok
			})
		}
	}
	return cands
}

func guardConstants(li *loopInfo) []int64 {
	seen := map[int64]bool{}
	var out []int64
	for b := range li.body {
		for _, in := range b.Instrs {
			if bo, ok := in.(*ssa.BinOp); ok {
				for _, op := range []ssa.Value{bo.X, bo.Y} {
					if c, ok := op.(*ssa.Const); ok && c.Value != nil && isInteger(c.Type()) {
						if n, ok := constInt64(c); ok && !seen[n] && n > -1000 && n < 100000 {
							seen[n] = true
							out = append(out, n)
						}
					}
				}
			}
		}
	}
	sort.Slice(out, func(i, j int) bool { return out[i] < out[j] })
	if len(out) > 6 {
		out = out[:6]
	}
	return out
}

func constInt64(c *ssa.Const) (int64, bool) {
	if c.Value == nil {
		return 0, false
	}
	s := c.Value.ExactString()
	var n int64
	if _, err := fmt.Sscan(s, &n); err != nil {
		return 0, false
	}
	return n, true
}

// inferInvariants runs the Houdini loop. pre: state before havoc (for initiation); st: state
// after havoc and explicit invariants. Returns the surviving candidates.
func (st *State) inferInvariants(pre *State, li *loopInfo, ws *writeSet) []candidate {
	u := st.u
	if u.houdini != nil || u.noHoudini || (u.spec != nil && u.spec.Flags["noinfer"] != "") {
		return nil // nested inference inside an inference run, or `flag noinfer`: explicit invariants only
	}
	e := st.eng()
	if ws.all {
		// discovery run: execute the body once so that every heap variable it touches is known, then make all
		// known heap variables candidates for "unchanged by this loop"
		d := st.clone()
		run := &houdiniRun{header: st.frame.block, depth: st.frame.depth}
		u.houdini = run
		savedObls, savedPaths, savedErrs := u.obls, u.paths, u.errs
		d.frame.loopsSeen[d.frame.block] = &loopEntry{}
		d.skipEnter = true
		func() {
			defer func() { u.houdini = nil }()
			u.explore(d)
		}()
		u.obls, u.paths, u.errs = savedObls, savedPaths, savedErrs
		for n, srt := range e.heapSorts {
			if _, ok := pre.heap[n]; !ok && !ws.except[n] {
				pre.heapGet(n, srt)
			}
			if _, ok := st.heap[n]; !ok && !ws.except[n] {
				st.heapGet(n, srt)
			}
		}
	}
	cands := pre.genCandidates(li, ws)
	if len(cands) == 0 {
		return nil
	}
	loopKey := fmt.Sprintf("%p/%d", li.header, st.frame.depth)
	if u.houdiniDead == nil {
		u.houdiniDead = map[string]map[string]bool{}
	}
	dead := u.houdiniDead[loopKey]
	if dead == nil {
		dead = map[string]bool{}
		u.houdiniDead[loopKey] = dead
	}
	{
		var alive []candidate
		for _, c := range cands {
			if !dead[c.name] {
				alive = append(alive, c)
			}
		}
		cands = alive
	}
	// initiation: candidates must hold in the pre-state
	var goals []Term
	var live []candidate
	for _, c := range cands {
		t, ok := c.eval(pre)
		if ok {
			goals = append(goals, t)
			live = append(live, c)
		}
	}
	res := e.multiQuery(pre.pcSlice(), goals)
	var keep []candidate
	for i, c := range live {
		if res[i] {
			keep = append(keep, c)
		} else {
			dead[c.name] = true
		}
	}
	cands = keep
	for round := 0; round < 8 && len(cands) > 0; round++ {
		// explore the body from the head under the current candidates
		s2 := st.clone()
		for _, c := range cands {
			t, ok := c.eval(s2)
			if ok {
				s2.assume(t)
			}
		}
		run := &houdiniRun{header: st.frame.block, depth: st.frame.depth}
		u.houdini = run
		savedObls, savedPaths, savedErrs := u.obls, u.paths, u.errs
		s2.frame.loopsSeen[s2.frame.block] = &loopEntry{}
		s2.skipEnter = true
		func() {
			defer func() {
				u.houdini = nil
			}()
			u.explore(s2)
		}()
		nerr := len(u.errs) - len(savedErrs)
		u.obls, u.paths, u.errs = savedObls, savedPaths, savedErrs
		if nerr > 0 {
			// the body could not be executed: no inference
			return nil
		}
		dropped := false
		alive := make([]bool, len(cands))
		for i := range alive {
			alive[i] = true
		}
		var mu sync.Mutex
		var wg sync.WaitGroup
		sem := make(chan struct{}, 8)
		for _, bs := range run.states {
			var gs []Term
			var idx []int
			for i, c := range cands {
				t, ok := c.eval(bs)
				if !ok {
					mu.Lock()
					alive[i] = false
					dropped = true
					mu.Unlock()
					continue
				}
				gs = append(gs, t)
				idx = append(idx, i)
			}
			wg.Add(1)
			go func(bs *State, gs []Term, idx []int) {
				defer wg.Done()
				sem <- struct{}{}
				defer func() { <-sem }()
				r := e.multiQuery(bs.pcSlice(), gs)
				mu.Lock()
				for k, ok := range r {
					if !ok {
						alive[idx[k]] = false
						dropped = true
					}
				}
				mu.Unlock()
			}(bs, gs, idx)
		}
		wg.Wait()
		var next []candidate
		for i, c := range cands {
			if alive[i] {
				next = append(next, c)
			} else {
				dead[c.name] = true
			}
		}
		cands = next
		if !dropped {
			return cands
		}
	}
	return nil
}

// multiQuery asks, for each goal, whether asserts ⊨ goal. One incremental z3 process.
func (e *Engine) multiQuery(asserts []Term, goals []Term) []bool {
	res := make([]bool, len(goals))
	if len(goals) == 0 {
		return res
	}
	// goals without quantifiers are checked against the quantifier-free hypotheses only (fast; sound: fewer hypotheses)
	var qfA []Term
	for _, a := range asserts {
		if !strings.Contains(a.S, "(forall ") && !strings.Contains(a.S, "(exists ") {
			qfA = append(qfA, a)
		}
	}
	var qfIdx, qIdx []int
	for i, g := range goals {
		if strings.Contains(g.S, "(forall ") || strings.Contains(g.S, "(exists ") {
			qIdx = append(qIdx, i)
		} else {
			qfIdx = append(qfIdx, i)
		}
	}
	if len(qfIdx) > 0 && len(qIdx) > 0 || len(qfA) != len(asserts) && len(qfIdx) > 0 {
		var wg sync.WaitGroup
		run := func(idx []int, as []Term) {
			defer wg.Done()
			gs := make([]Term, len(idx))
			for k, i := range idx {
				gs[k] = goals[i]
			}
			r := e.multiQueryRaw(as, gs)
			for k, i := range idx {
				res[i] = r[k]
			}
		}
		if len(qfIdx) > 0 {
			wg.Add(1)
			go run(qfIdx, qfA)
		}
		if len(qIdx) > 0 {
			wg.Add(1)
			go run(qIdx, asserts)
		}
		wg.Wait()
		return res
	}
	return e.multiQueryRaw(asserts, goals)
}

// multiQueryRaw checks every goal against the hypotheses. A candidate is given up only on a refutation or after a second
// attempt: a goal the solver did not get to before the process ran out of time (that depends on the load of the machine) is asked again with five times the budget. (An obligation that fails for want of an inferred invariant gets its own second
// attempt in Discharge; the inference itself is not repeated.)
func (e *Engine) multiQueryRaw(asserts []Term, goals []Term) []bool {
	res, answered := e.multiQueryOnce(asserts, goals, 600, 5+2*len(goals))
	var again []int
	for i := range goals {
		if !answered[i] {
			again = append(again, i)
		}
	}
	if len(again) > 0 {
		gs := make([]Term, len(again))
		for k, i := range again {
			gs[k] = goals[i]
		}
		r2, _ := e.multiQueryOnce(asserts, gs, 3000, 10+6*len(gs))
		for k, i := range again {
			res[i] = r2[k]
		}
	}
	return res
}

func (e *Engine) multiQueryOnce(asserts []Term, goals []Term, perGoalMs int, totalS int) (res []bool, answered []bool) {
	res = make([]bool, len(goals))
	answered = make([]bool, len(goals))
	if len(goals) == 0 {
		return res, answered
	}
	var sb strings.Builder
	sb.WriteString(fmt.Sprintf("(set-option :timeout %d)\n(set-logic ALL)\n", perGoalMs))
	sb.WriteString(smtPrelude)
	used := map[string]bool{}
	for _, a := range asserts {
		symbolsOf(a.S, used)
	}
	for _, g := range goals {
		symbolsOf(g.S, used)
	}
	q := &Query{Decls: e.decls}
	sb.WriteString(q.declText(used))
	for _, a := range asserts {
		sb.WriteString("(assert " + a.S + ")\n")
	}
	for _, g := range goals {
		sb.WriteString("(push)\n(assert (not " + g.S + "))\n(check-sat)\n(pop)\n")
	}
	solverMu.Lock()
	queryCounter++
	id := queryCounter
	solverMu.Unlock()
	file := filepath.Join(smtDir(), fmt.Sprintf("h%06d.smt2", id))
	os.MkdirAll(filepath.Dir(file), 0o755)
	os.WriteFile(file, []byte(sb.String()), 0o644)
	defer func() {
		if !keepSMT {
			os.Remove(file)
		}
	}()
	ctx, cancel := context.WithTimeout(context.Background(), time.Duration(totalS)*time.Second)
	defer cancel()
	cmd := exec.CommandContext(ctx, "z3-new", file)
	var buf bytes.Buffer
	cmd.Stdout = &buf
	t0 := time.Now()
	cmd.Run()
	solverMu.Lock()
	t := solverTotals["z3-new(houdini)"]
	if t == nil {
		t = &struct {
			N       int
			Seconds float64
		}{}
		solverTotals["z3-new(houdini)"] = t
	}
	t.N++
	t.Seconds += time.Since(t0).Seconds()
	solverMu.Unlock()
	lines := strings.Fields(buf.String())
	for i := range goals {
		if i < len(lines) && lines[i] == "unsat" {
			res[i] = true
		}
		// "unknown" within the solver's own budget counts as an answer (asking all of those again quintupled the inference
		// time); a goal the solver never got to before the process budget ran out does not
		if i < len(lines) {
			answered[i] = true
		}
	}
	return res, answered
}

func (q *Query) declText(used map[string]bool) string {
	var sb strings.Builder
	need := map[string]bool{}
	byName := map[string]*Decl{}
	for i := range q.Decls {
		byName[q.Decls[i].Name] = &q.Decls[i]
	}
	var mark func(name string)
	mark = func(name string) {
		if need[name] {
			return
		}
		d := byName[name]
		if d == nil {
			// constructors and selectors of struct datatypes
			if strings.HasPrefix(name, "mk_S_") {
				mark(name[3:])
			} else if i := strings.Index(name, "__"); i > 0 && strings.HasPrefix(name, "S_") {
				mark(name[:i])
			}
			return
		}
		need[name] = true
		for _, dep := range d.Deps {
			mark(dep)
		}
		m := map[string]bool{}
		symbolsOf(d.Text, m)
		for s := range m {
			if s != name {
				mark(s)
			}
		}
	}
	for s := range used {
		mark(s)
	}
	for _, d := range q.Decls {
		if need[d.Name] {
			sb.WriteString(d.Text)
			sb.WriteByte('\n')
		}
	}
	return sb.String()
}

var _ = types.Typ
