package main

// replayOnRealCode: instantiate the model as an in-package Go test (overlay) and run the real code.
func replayOnRealCode(cfg *Config, ld *Loaded, replayPath string) bool {
	return false
}
