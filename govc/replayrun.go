package main

// Replay of a solver counterexample on the real code.
//
// A replay template /verif/replay/<unit key>.go.tmpl is an in-package Go test with placeholders. Its header declares
// probes — contract-language expressions evaluated in the ENTRY state of the failed obligation's unit:
//
//     //govc:probe NAME KIND EXPR        KIND = int | bool | string | bytes
//
// The failed query is re-solved (z3) with the probes' lengths bounded, the values are read with get-value, the
// placeholders {{NAME}} are replaced by Go literals and {{OBLIGATION}} by the obligation name, and the test is run
// against /repo through `go test -overlay` (nothing is written to /repo). The test prints
// "GOVC-REPLAY: CONFIRMED ..." when it observes the violation on the real code.

import (
	"bytes"
	"context"
	"encoding/json"
	"fmt"
	"os"
	"os/exec"
	"path/filepath"
	"regexp"
	"strconv"
	"strings"
	"time"
)

type probe struct {
	Name string
	Kind string
	Expr *Expr
	Text string
}

var pendingReplays = map[string]*Obligation{} // replay path → obligation (same process)

func fileExists(p string) bool {
	_, err := os.Stat(p)
	return err == nil
}

func templatePath(cfg *Config, unitKey string) string {
	return filepath.Join(cfg.Verif, "replay", unitKey+".go.tmpl")
}

func parseTemplate(path string) ([]probe, string, error) {
	data, err := os.ReadFile(path)
	if err != nil {
		return nil, "", err
	}
	// "//govc:use <file>": this unit shares the template of another one
	if t := strings.TrimSpace(string(data)); strings.HasPrefix(t, "//govc:use ") {
		f := strings.Fields(strings.SplitN(t, "\n", 2)[0])
		if len(f) >= 2 {
			return parseTemplate(filepath.Join(filepath.Dir(path), f[1]))
		}
	}
	var probes []probe
	for _, line := range strings.Split(string(data), "\n") {
		t := strings.TrimSpace(line)
		if !strings.HasPrefix(t, "//govc:probe ") {
			continue
		}
		f := strings.Fields(t[len("//govc:probe "):])
		if len(f) < 3 {
			return nil, "", fmt.Errorf("bad probe line %q", t)
		}
		txt := strings.Join(f[2:], " ")
		e, err := ParseExpr(txt)
		if err != nil {
			return nil, "", fmt.Errorf("probe %s: %v", f[0], err)
		}
		probes = append(probes, probe{Name: f[0], Kind: f[1], Expr: e, Text: txt})
	}
	return probes, string(data), nil
}

func runZ3Values(text string, timeoutS int) (string, string) {
	file := filepath.Join(smtDir(), fmt.Sprintf("replay%d.smt2", time.Now().UnixNano()))
	os.MkdirAll(filepath.Dir(file), 0o755)
	os.WriteFile(file, []byte(text), 0o644)
	defer os.Remove(file)
	ctx, cancel := context.WithTimeout(context.Background(), time.Duration(timeoutS+2)*time.Second)
	defer cancel()
	cmd := exec.CommandContext(ctx, "z3-new", "-T:"+strconv.Itoa(timeoutS), file)
	var buf bytes.Buffer
	cmd.Stdout = &buf
	cmd.Stderr = &buf
	cmd.Run()
	out := buf.String()
	first := strings.TrimSpace(out)
	rest := ""
	if i := strings.IndexByte(first, '\n'); i >= 0 {
		rest = first[i+1:]
		first = strings.TrimSpace(first[:i])
	}
	return first, rest
}

// parseGetValue parses "((e1 v1) (e2 v2) ...)" into values in order
func parseGetValue(out string) []string {
	toks := tokenizeSexp(out)
	pos := 0
	var parse func() interface{}
	parse = func() interface{} {
		if pos >= len(toks) {
			return nil
		}
		t := toks[pos]
		pos++
		if t == "(" {
			var list []interface{}
			for pos < len(toks) && toks[pos] != ")" {
				list = append(list, parse())
			}
			pos++
			return list
		}
		return t
	}
	var vals []string
	for pos < len(toks) {
		e := parse()
		l, ok := e.([]interface{})
		if !ok {
			continue
		}
		for _, pair := range l {
			pl, ok := pair.([]interface{})
			if ok && len(pl) == 2 {
				vals = append(vals, sexpString(pl[1]))
			}
		}
	}
	return vals
}

func smtIntValue(s string) (int64, bool) {
	s = strings.TrimSpace(s)
	if strings.HasPrefix(s, "(- ") {
		n, err := strconv.ParseInt(strings.TrimSuffix(s[3:], ")"), 10, 64)
		return -n, err == nil
	}
	n, err := strconv.ParseInt(s, 10, 64)
	return n, err == nil
}

// replayOnRealCode: the solver's model instantiated in the unit's template; when that gives nothing (no model, no
// template with probes, or the instantiated input does not fail) a corpus template <unit>@corpus.go.tmpl - boundary inputs
// checked against a small reference written from the property statement - is tried. Either only DEMONSTRATES a failing
// input on the real code; the verdict is the failed obligation.
func replayOnRealCode(cfg *Config, ld *Loaded, replayPath string) bool {
	if replayByModel(cfg, ld, replayPath) {
		return true
	}
	o := pendingReplays[replayPath]
	if o == nil {
		return false
	}
	cp := filepath.Join(cfg.Verif, "replay", o.Unit.key+"@corpus.go.tmpl")
	if !fileExists(cp) {
		return false
	}
	_, tmpl, err := parseTemplate(cp)
	if err != nil {
		return false
	}
	return runReplayTest(cfg, ld, o, replayPath, tmpl, map[string]string{})
}

func replayByModel(cfg *Config, ld *Loaded, replayPath string) bool {
	o := pendingReplays[replayPath]
	if o == nil {
		return false
	}
	unitKey := o.Unit.key
	tp := templatePath(cfg, unitKey)
	if kp := filepath.Join(cfg.Verif, "replay", unitKey+"@"+o.Kind+".go.tmpl"); fileExists(kp) {
		tp = kp // a template for this kind of obligation of the unit
	}
	probes, tmpl, err := parseTemplate(tp)
	if err != nil {
		noteReplay(replayPath, "no replay template for "+unitKey)
		return false
	}
	if len(probes) == 0 {
		// witness template: fixed input of the recorded input class, no solver model needed
		return runReplayTest(cfg, ld, o, replayPath, tmpl, map[string]string{})
	}
	eng := o.Unit.eng
	// evaluate the probes in the entry state
	st := &State{u: o.Unit, cellVal: map[*Cell]Value{}, heap: map[string]Term{}, pcSet: map[string]bool{}, written: map[string]bool{}, fresh: map[string]bool{}}
	for k, v := range o.EntryHeap {
		st.heap[k] = v
	}
	st.alloc = eng.constNamed("alloc!0", SInt)
	fr := &Frame{fn: o.Unit.fn, regs: nil, params: o.Entry, spec: o.Unit.spec}
	type pv struct {
		p     probe
		v     Value
		lenTm Term
	}
	var pvs []pv
	var evalErr error
	func() {
		defer func() {
			if r := recover(); r != nil {
				evalErr = fmt.Errorf("%v", r)
			}
		}()
		for _, p := range probes {
			env := st.newEnv(fr, nil)
			env.post = true
			env.old = st
			v := env.eval(p.Expr)
			x := pv{p: p, v: v}
			switch p.Kind {
			case "string":
				x.lenTm = StrLen(v.Tm)
			case "bytes":
				x.lenTm = SlLen(v.Tm)
			}
			pvs = append(pvs, x)
		}
	}()
	if evalErr != nil {
		noteReplay(replayPath, "probe evaluation failed: "+evalErr.Error())
		return false
	}
	q := &Query{Name: o.Name, Decls: eng.decls, Asserts: append(append([]Term{}, o.Asserts...), st.pcSlice()...), Goal: o.Goal}
	base := q.text(false, true, false)
	base = strings.Replace(base, "(get-model)\n", "", 1)
	base = strings.Replace(base, "(check-sat)\n", "", 1)
	// the probe terms may use symbols declared after the query text was built: rebuild with them mentioned
	var extra strings.Builder
	used := map[string]bool{}
	for _, x := range pvs {
		symbolsOf(x.v.Tm.S, used)
	}
	have := map[string]bool{}
	symbolsOf(base, have)
	for _, d := range eng.decls {
		if used[d.Name] && !strings.Contains(base, d.Text) {
			extra.WriteString(d.Text + "\n")
		}
	}
	var scal []string
	for _, bound := range []int{64, 2048, 1 << 20} {
		var sb strings.Builder
		// declarations first
		idx := strings.Index(base, "(assert ")
		if idx < 0 {
			idx = len(base)
		}
		sb.WriteString(base[:idx])
		sb.WriteString(extra.String())
		sb.WriteString(base[idx:])
		for _, x := range pvs {
			if !x.lenTm.IsZero() {
				fmt.Fprintf(&sb, "(assert (<= %s %d))\n", x.lenTm.S, bound)
			}
		}
		sb.WriteString("(check-sat)\n(get-value (")
		for _, x := range pvs {
			switch x.p.Kind {
			case "int", "bool":
				sb.WriteString(x.v.Tm.S + " ")
			default:
				sb.WriteString(x.lenTm.S + " ")
			}
		}
		sb.WriteString("))\n")
		status, rest := runZ3Values(sb.String(), 20)
		if status != "sat" {
			continue
		}
		scal = parseGetValue(rest)
		if len(scal) != len(pvs) {
			scal = nil
			continue
		}
		// second run: bytes
		var sb2 strings.Builder
		sb2.WriteString(sb.String()[:strings.LastIndex(sb.String(), "(check-sat)")])
		var reqs []struct{ pi, n int }
		for i, x := range pvs {
			if x.lenTm.IsZero() {
				fmt.Fprintf(&sb2, "(assert (= %s %s))\n", x.v.Tm.S, scal[i])
				continue
			}
			n, _ := smtIntValue(scal[i])
			fmt.Fprintf(&sb2, "(assert (= %s %d))\n", x.lenTm.S, n)
			reqs = append(reqs, struct{ pi, n int }{i, int(n)})
		}
		sb2.WriteString("(check-sat)\n(get-value (")
		total := 0
		for _, r := range reqs {
			x := pvs[r.pi]
			for k := 0; k < r.n; k++ {
				var t Term
				if x.p.Kind == "string" {
					t = Select(StrArr(x.v.Tm), Ix(StrOff(x.v.Tm), IntLit(int64(k))))
				} else {
					name, sort := eng.memName(elemOf(x.v.T))
					t = Select(Select(st.heapGet(name, sort), SlRef(x.v.Tm)), Ix(SlOff(x.v.Tm), IntLit(int64(k))))
				}
				sb2.WriteString(t.S + " ")
				total++
			}
		}
		sb2.WriteString("0))\n")
		status2, rest2 := runZ3Values(sb2.String(), 30)
		if status2 != "sat" {
			scal = nil
			continue
		}
		bvals := parseGetValue(rest2)
		// render
		vals := map[string]string{}
		bi := 0
		for i, x := range pvs {
			switch x.p.Kind {
			case "int":
				n, _ := smtIntValue(scal[i])
				vals[x.p.Name] = strconv.FormatInt(n, 10)
			case "bool":
				vals[x.p.Name] = scal[i]
			default:
				n, _ := smtIntValue(scal[i])
				bs := make([]byte, n)
				for k := 0; k < int(n); k++ {
					if bi < len(bvals) {
						v, _ := smtIntValue(bvals[bi])
						bs[k] = byte(v)
					}
					bi++
				}
				if x.p.Kind == "string" {
					vals[x.p.Name] = strconv.Quote(string(bs))
				} else {
					vals[x.p.Name] = "[]byte(" + strconv.Quote(string(bs)) + ")"
				}
			}
		}
		return runReplayTest(cfg, ld, o, replayPath, tmpl, vals)
	}
	noteReplay(replayPath, "no model under the replay size bounds")
	return false
}

var placeholderRe = regexp.MustCompile(`\{\{([A-Za-z_0-9]+)\}\}`)

func runReplayTest(cfg *Config, ld *Loaded, o *Obligation, replayPath, tmpl string, vals map[string]string) bool {
	vals["OBLIGATION"] = strconv.Quote(o.Unit.key + "/" + o.Name)
	src := placeholderRe.ReplaceAllStringFunc(tmpl, func(m string) string {
		k := m[2 : len(m)-2]
		if v, ok := vals[k]; ok {
			return v
		}
		return m
	})
	dir := filepath.Join(outDir, "replay", fmt.Sprintf("p%d", os.Getpid()))
	os.MkdirAll(dir, 0o755)
	base := sanitize(filepath.Base(replayPath))
	testFile := filepath.Join(dir, base+"_test.go")
	os.WriteFile(testFile, []byte(src), 0o644)
	pkgDir := filepath.Dir(ld.fset.Position(o.Unit.fn.Pos()).Filename)
	// "//govc:dir <dir relative to the repository>": the template is a test of another package than the unit's
	for _, l := range strings.Split(tmpl, "\n") {
		if t := strings.TrimSpace(l); strings.HasPrefix(t, "//govc:dir ") {
			pkgDir = filepath.Join(cfg.Repo, strings.TrimSpace(t[len("//govc:dir "):]))
		}
	}
	ov := map[string]interface{}{"Replace": map[string]string{filepath.Join(pkgDir, "zz_govc_replay_test.go"): testFile}}
	ovData, _ := json.Marshal(ov)
	ovFile := filepath.Join(dir, base+"_overlay.json")
	os.WriteFile(ovFile, ovData, 0o644)
	ctx, cancel := context.WithTimeout(context.Background(), 180*time.Second)
	defer cancel()
	cmd := exec.CommandContext(ctx, "go", "test", "-overlay", ovFile, "-vet=off", "-count=1", "-timeout", "150s", "-v", "-run", "^TestGovcReplay$", ".")
	cmd.Dir = pkgDir
	cmd.Env = append(os.Environ(), "GOFLAGS=-mod=mod", "GOPROXY=off", "GOSUMDB=off", "GOTOOLCHAIN=local", "LOG_LEVEL=fatal")
	var buf bytes.Buffer
	cmd.Stdout = &buf
	cmd.Stderr = &buf
	cmd.Run()
	out := buf.String()
	confirmed := strings.Contains(out, "GOVC-REPLAY: CONFIRMED")
	res := "not reproduced"
	if confirmed {
		res = "CONFIRMED on the real code"
	}
	var inputs []string
	for k, v := range vals {
		inputs = append(inputs, k+"="+trunc(v, 300))
	}
	noteReplay(replayPath, fmt.Sprintf("%s; inputs: %s; test: %s; output: %s", res, strings.Join(inputs, " "), testFile, trunc(lastLines(out, 12), 1500)))
	return confirmed
}

func lastLines(s string, n int) string {
	lines := strings.Split(strings.TrimSpace(s), "\n")
	if len(lines) > n {
		lines = lines[len(lines)-n:]
	}
	return strings.Join(lines, "\n")
}

func noteReplay(path string, msg string) {
	data, err := os.ReadFile(path)
	if err != nil {
		return
	}
	var rf ReplayFile
	if json.Unmarshal(data, &rf) != nil {
		return
	}
	rf.Replay = msg
	out, _ := json.MarshalIndent(rf, "", " ")
	os.WriteFile(path, out, 0o644)
}
