#!/bin/bash
# usage: seedimport.sh <PROP> <n-in-round2: 1|2>   imports /tmp/seed2/out_<PROP>/<n> as /verif/seeded/<PROP>-<n+2>, confirms and runs detection
set -u
p=$1; n=$2; root=${3:-/tmp/seed2}; m=$((n+2)); src=$root/out_$p/$n; id=$p-$m
mkdir -p /verif/seeded/$id
cp $src/patch.diff /verif/seeded/$id/patch.diff
cp $(ls $src/*_test.go | head -1) /verif/seeded/$id/demo_test.go
cp $src/notes.md /verif/seeded/$id/notes.md 2>/dev/null
/verif/tools/seedconfirm.sh $id
cat /verif/seeded/$id/confirm.txt | tr '\n' ' '; echo
/verif/tools/seeddetect.sh $id $p
