#!/usr/bin/env python3
# Refreshes the "units / obligations" column of the decision table (I.2) of DESIGN.md from the evidence files.
import json,re,os
p='/verif/DESIGN.md'; s=open(p).read()
def repl(m):
    pid=m.group(1); ev='/verif/evidence/%s.json'%pid
    if not os.path.exists(ev): return m.group(0)
    c=json.load(open(ev))['coverage']
    return "| %s | %s | %d / %d |"%(pid,m.group(2),len(c['functions_under_contract']),c['obligations'])
s=re.sub(r'^\| (C\d\d) \| ([^|]*) \| \d+ / \d+ \|',repl,s,flags=re.M)
open(p,'w').write(s)
