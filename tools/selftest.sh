#!/bin/bash
# Must-fail corpus for the engine and the contracts: every seeded change in /verif/seeded must make the quick check of
# its property exit 1 (and the unchanged tree must pass). Run after every engine change; ~35 min.
# The checks rewrite /verif/evidence/<id>.json, so the unchanged tree is checked LAST (evidence describes /repo itself).
set -u
cd /repo && [ -z "$(git status --porcelain)" ] || { echo "selftest: /repo is not clean"; exit 2; }
missed=0
for id in $(ls -d /verif/seeded/*/ | xargs -n1 basename); do
  p=${id%-*}
  line=$(/verif/tools/seeddetect.sh $id $p 2>&1 | tail -1)
  echo "$line"
  case "$line" in *"exit=1"*) ;; *) missed=$((missed+1)); echo "  MISSED or error: $id";; esac
done
cd /repo && [ -z "$(git status --porcelain)" ] || { echo "selftest: /repo left dirty"; exit 2; }
/verif/tools/runall.sh | tee /tmp/selftest_runall.log
bad=$(grep -c "exit=[^0]" /tmp/selftest_runall.log)
python3 /verif/tools/mkdetection.py
echo "selftest: missed=$missed unchanged-tree-failures=$bad"
[ $missed -eq 0 ] && [ $bad -eq 0 ]
