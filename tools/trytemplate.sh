#!/bin/bash
# usage: trytemplate.sh <template file> <package dir relative to repo> [seed patch]
# Runs a witness/corpus replay template as an in-package test in a scratch worktree of /repo HEAD (optionally with a seeded
# change applied) and prints its GOVC-REPLAY lines. For developing templates: on the unchanged tree it must print nothing.
set -u
export GOFLAGS=-mod=mod GOPROXY=off GOSUMDB=off GOTOOLCHAIN=local LOG_LEVEL=fatal
t="$1"; dir="$2"; patch="${3:-}"
wt=$(mktemp -d /tmp/tmplwt_XXXXXX); rmdir $wt
git -C /repo worktree add -q --detach $wt HEAD || exit 1
cd $wt
if [ -n "$patch" ]; then git apply "$patch" || echo "patch does not apply"; fi
sed 's/{{OBLIGATION}}/"manual"/g' "$t" > $dir/zz_govc_replay_test.go
go test -vet=off -count=1 -timeout 120s -run '^TestGovcReplay$' -v ./$dir 2>&1 | grep -v "^=== \|^--- \|^PASS\|^ok" | head -20
cd /; git -C /repo worktree remove --force $wt; rm -rf $wt
