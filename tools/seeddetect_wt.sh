#!/bin/bash
# usage: seeddetect_wt.sh <seed-id> <property> [<property>...]
# Like seeddetect.sh but in a scratch worktree of /repo HEAD (outside /repo and /verif, removed afterwards) with a scratch verif
# directory: neither /repo nor /verif/evidence nor /verif/replays is touched. Writes seeded/<id>/detect_<prop>.txt
set -u
id="$1"; shift
sd=/verif/seeded/$id
export GOFLAGS=-mod=mod GOPROXY=off GOSUMDB=off GOTOOLCHAIN=local LOG_LEVEL=fatal
wt=$(mktemp -d /tmp/detwt_XXXXXX); rmdir $wt; vd=$(mktemp -d /tmp/detv_XXXXXX)
git -C /repo worktree add -q --detach $wt HEAD || exit 2
for n in contracts replay known_findings.json; do ln -s /verif/$n $vd/$n; done
( cd $wt && git apply $sd/patch.diff ) || { echo "$id: patch does not apply"; git -C /repo worktree remove --force $wt; rm -rf $vd; exit 2; }
for p in "$@"; do
  out=$(/verif/bin/govc -repo $wt -verif $vd -prop $p -tier quick -j ${DETJ:-8} 2>&1); rc=$?
  out=${out//$vd\/replays//verif/replays}
  { echo "exit=$rc"; echo "$out" | grep "^FAILED\|^VIOLATION\|^UNDECIDED\|^NOTE: .*dropped\|^property=" | cut -c1-300; } > $sd/detect_$p.txt
  echo "$id $p exit=$rc $(echo "$out" | grep -c '^VIOLATION') violation(s)"
done
git -C /repo worktree remove --force $wt; rm -rf $wt $vd
