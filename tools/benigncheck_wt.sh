#!/bin/bash
# usage: benigncheck_wt.sh <benign-id> <property> [<property>...]
# Applies a behaviour-preserving edit (/verif/seeded/benign/<id>/patch.diff) in a scratch worktree of /repo HEAD (outside /repo
# and /verif, removed afterwards), builds it, and runs the quick check of each property with a scratch verif directory.
# Writes seeded/benign/<id>/check_<prop>.txt. The checks must stay silent (exit 0).
set -u
id="$1"; shift
sd=/verif/seeded/benign/$id
export GOFLAGS=-mod=mod GOPROXY=off GOSUMDB=off GOTOOLCHAIN=local LOG_LEVEL=fatal
wt=$(mktemp -d /tmp/benwt_XXXXXX); rmdir $wt; vd=$(mktemp -d /tmp/benv_XXXXXX)
git -C /repo worktree add -q --detach $wt HEAD || exit 2
for n in contracts replay known_findings.json; do ln -s /verif/$n $vd/$n; done
( cd $wt && git apply $sd/patch.diff ) || { echo "$id: patch does not apply"; git -C /repo worktree remove --force $wt; rm -rf $vd; exit 2; }
( cd $wt && go build ./... ) > /dev/null 2>&1 || echo "$id: DOES NOT BUILD"
for p in "$@"; do
  out=$(${GOVC:-/verif/bin/govc} -repo $wt -verif $vd -prop $p -tier quick -j ${DETJ:-6} 2>&1); rc=$?
  { echo "exit=$rc"; echo "$out" | grep "^FAILED\|^VIOLATION\|^UNDECIDED\|^NOTE: .*dropped\|^NOTE: .*abstracted\|^property=" | cut -c1-300; } > $sd/check_$p.txt
  echo "$id $p exit=$rc $(echo "$out" | grep -c '^VIOLATION') violation(s)"
done
git -C /repo worktree remove --force $wt; rm -rf $wt $vd
