#!/bin/bash
# Regenerates /verif/seeded/benign/RESULTS.md from the check_<P>.txt files (written by tools/pardetect.py benign / benigncheck.sh)
cd /verif/seeded/benign
{ echo "# Behaviour-preserving changes: the checks must stay silent"; echo
  echo "Each directory holds a patch produced by a fresh sub-agent that was told to make a harmless maintenance edit inside the functions a property is anchored in (round 1: ids -b*, round 2: ids -c*, round 3: ids -d* - checked against several properties each; the row shows the check of the id's own property); the full suite passes with each. \`tools/pardetect.py benign\` applies it in a scratch worktree and runs the property's quick check."; echo
  echo "| id | edit | check result |"; echo "|---|---|---|"
  tot=0; sil=0
  for d in C*-[bcd]*; do p=${d%%-*}; t=$(head -1 $d/notes.md 2>/dev/null | sed 's/^# *//' | cut -c1-110); f=$d/check_$p.txt
    [ -f $f ] || { echo "| $d | $t | not run |"; continue; }
    ex=$(grep -m1 '^exit=' $f | cut -d= -f2); tot=$((tot+1))
    if [ "$ex" = 0 ]; then r="silent (exit 0)"; sil=$((sil+1)); else r="**ALARM** (exit $ex): $(grep -m1 '^FAILED' $f | sed 's/FAILED obligation //; s/ \[.*//' | cut -c1-100)"; fi
    echo "| $d | $t | $r |"; done
  echo; echo "$sil of $tot silent."; } > RESULTS.md
tail -1 RESULTS.md
