#!/bin/bash
# usage: seedcheck.sh <out_dir e.g. /tmp/seed/out_C13/2> <name e.g. C13-2>
# Confirms a seeded change in a scratch worktree of /repo HEAD: applies, builds, suite passes, demo fails with / passes without.
set -u
out="$1"; name="$2"
export GOFLAGS=-mod=mod GOPROXY=off GOSUMDB=off GOTOOLCHAIN=local LOG_LEVEL=fatal
wt=/tmp/seedchk_$name
res=/tmp/seed/confirm_$name.txt
rm -f $res
git -C /repo worktree remove --force $wt 2>/dev/null
git -C /repo worktree add -q --detach $wt HEAD || { echo "worktree failed" > $res; exit 1; }
cd $wt
demo=$(ls $out/*_test.go 2>/dev/null | head -1)
pkgdir=$(grep -ho 'transform/[a-z]*\|input/[a-z]*\|output/[a-z]*\|buffer/[a-z]*\|base/[a-z]*\|base\b\|util/[a-z]*\|util\b\|run\b\|orchestrate/[a-z]*\|test\b' $out/notes.md | head -1)
# package dir: from the demo's package clause + notes; fall back to searching for the package name
pk=$(grep -m1 '^package ' $demo | awk '{print $2}')
cand=$(grep -rl "^package $pk\$" --include=*.go . | xargs -n1 dirname | sort | uniq -c | sort -rn | awk '{print $2}')
dir=""
for c in $cand; do if grep -q "${c#./}" $out/notes.md; then dir=$c; break; fi; done
[ -z "$dir" ] && dir=$(echo "$cand" | head -1)
echo "demo=$demo pkg=$pk dir=$dir" >> $res
cp $demo $dir/zz_seed_demo_test.go
tname=$(grep -o 'func Test[A-Za-z0-9_]*' $demo | head -1 | awk '{print $2}')
go test -vet=off -count=1 -run "^$tname\$" $dir > /tmp/seed/log_${name}_without.txt 2>&1; echo "demo_without_change_exit=$?" >> $res
if git apply --check $out/patch.diff 2>/dev/null; then git apply $out/patch.diff; echo "applies=yes" >> $res; else echo "applies=NO" >> $res; fi
go build ./... > /tmp/seed/log_${name}_build.txt 2>&1; echo "build_exit=$?" >> $res
go test -vet=off -count=1 -run "^$tname\$" $dir > /tmp/seed/log_${name}_with.txt 2>&1; echo "demo_with_change_exit=$?" >> $res
rm -f $dir/zz_seed_demo_test.go
go test -vet=off -count=1 ./... > /tmp/seed/log_${name}_suite.txt 2>&1; echo "suite_with_change_exit=$?" >> $res
cd /; git -C /repo worktree remove --force $wt
echo done >> $res
