#!/bin/bash
# usage: seedconfirm.sh <seed-id e.g. C13-2> [--nosuite]
# Confirms a seeded change (/verif/seeded/<id>) in a scratch worktree of /repo HEAD (outside /repo and /verif, removed afterwards):
# the patch applies and builds, the demonstration passes without and fails with the change, the test suite passes with it.
# Writes /verif/seeded/<id>/confirm.txt
set -u
id="$1"; nosuite="${2:-}"
sd=/verif/seeded/$id
export GOFLAGS=-mod=mod GOPROXY=off GOSUMDB=off GOTOOLCHAIN=local LOG_LEVEL=fatal
wt=$(mktemp -d /tmp/seedwt_XXXXXX); rmdir $wt
res=$sd/confirm.txt
: > $res
echo "head=$(git -C /repo rev-parse --short HEAD)" >> $res
git -C /repo worktree add -q --detach $wt HEAD || { echo "worktree failed" >> $res; exit 1; }
cd $wt
demo=$sd/demo_test.go
pk=$(grep -m1 '^package ' $demo | awk '{print $2}')
base=${pk%_test}
cand=$(grep -rl "^package $base\$" --include=*.go . | xargs -n1 dirname | sort | uniq -c | sort -rn | awk '{print $2}')
dir=""
for c in $cand; do if grep -q "${c#./}" $sd/notes.md; then dir=$c; break; fi; done
[ -z "$dir" ] && dir=$(echo "$cand" | head -1)
echo "demo_dir=${dir#./} package=$pk" >> $res
cp $demo $dir/zz_seed_demo_test.go
tname=$(grep -o 'func Test[A-Za-z0-9_]*' $demo | head -1 | awk '{print $2}')
echo "demo_test=$tname" >> $res
go test -vet=off -count=1 -run "^$tname\$" $dir > /dev/null 2>&1; echo "demo_without_change_exit=$?" >> $res
if git apply --check $sd/patch.diff 2>/dev/null; then git apply $sd/patch.diff; echo "applies=yes" >> $res; else echo "applies=NO" >> $res; fi
go build ./... > /dev/null 2>&1; echo "build_exit=$?" >> $res
go test -vet=off -count=1 -run "^$tname\$" $dir > /dev/null 2>&1; echo "demo_with_change_exit=$?" >> $res
rm -f $dir/zz_seed_demo_test.go
if [ "$nosuite" != "--nosuite" ]; then
  go test -vet=off -count=1 ./... > /tmp/seedsuite_$id.log 2>&1; rc=$?
  if [ $rc -ne 0 ]; then go test -vet=off -count=1 ./... > /tmp/seedsuite_$id.log 2>&1; rc=$?; echo "suite_retried=yes" >> $res; fi
  echo "suite_with_change_exit=$rc" >> $res; rm -f /tmp/seedsuite_$id.log
fi
cd /; git -C /repo worktree remove --force $wt; rm -rf $wt
echo done >> $res
