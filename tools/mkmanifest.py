#!/usr/bin/env python3
# Regenerates /verif/MANIFEST.json from /verif/tools/claims.json (per-property claim texts) and properties.jsonl
import json,subprocess
props=[json.loads(l) for l in open('/verif/properties.jsonl')]
claims=json.load(open('/verif/tools/claims.json'))
hooks=subprocess.run("git -C /repo log --format=%h --grep='^verif:' ",shell=True,capture_output=True,text=True).stdout.split()
checks=[];na=[]
for p in props:
    c=claims.get(p['id'])
    if c and c.get('claimed'):
        checks.append({"property_id":p['id'],"quick_cmd":"/verif/check %s quick"%p['id'],"thorough_cmd":"/verif/check %s thorough"%p['id'],
          "evidence_file":"/verif/evidence/%s.json"%p['id'],"replay_cmd_template":"/verif/check %s --replay {path}"%p['id'],"engine":"govc",
          "level_claimed":{"category":"proof","text":c['text'],"design_ref":c.get('design_ref','DESIGN.md section 4')},
          "level_note":c['note'],"technique":c.get('technique',"contract-based deductive verification: //@ contracts on the real Go functions, VCs generated over go/ssa by govc, discharged by z3/cvc5")})
    else:
        na.append({"property_id":p['id'],"reason":(c or {}).get('reason',"not yet claimed: contracts for this property are still under construction (see DESIGN.md)")})
m={"version":1,
 "setup_cmd":"cd /verif/govc && GOFLAGS=-mod=mod GOPROXY=off GOSUMDB=off GOTOOLCHAIN=local go build -o /verif/bin/govc .",
 "hooks":{"guard":"verif","enable":"-tags verif: the hook files are the comment-only contract files <pkg>/verif_contracts.go and two files of ghost Go code, util/verif_lemmas.go (two lemma functions) and base/bmatch/verif_lemmas.go (two harness functions around the real match-operator constructors), none of them ever called, all //go:build verif; govc loads /repo with the tag on","baseline_off_cmd":"cd /repo && GOFLAGS=-mod=mod GOPROXY=off GOSUMDB=off GOTOOLCHAIN=local go test -vet=off -count=1 -timeout 25m ./...","source_commits":hooks,"add_only":True},
 "engines":[{"name":"govc","path":"/verif/govc","serves_properties":[c['property_id'] for c in checks],"kind_free_text":"contract-based deductive verifier for Go written for this task: VC generation by forward symbolic execution over go/ssa (NaiveForm), contracts in //@ comment files behind the verif build tag, Houdini inference for safety invariants, obligations discharged by a z3 4.8 / z3 5.1 / cvc5 portfolio"}],
 "checks":checks,"not_applicable":na,
 "notes":"Every check reloads /repo's working tree with -tags verif, regenerates all obligations and discharges them; known findings are listed in /verif/known_findings.json."}
json.dump(m,open('/verif/MANIFEST.json','w'),indent=1)
print(len(checks),"checks",len(na),"not applicable")
