#!/bin/bash
# usage: seedimport6.sh <PROP> [root]   imports <root>/out_<PROP>/{1,2} as the next free /verif/seeded/<PROP>-<n>, confirms and detects
# (both in scratch worktrees; /repo is not touched)
set -u
p=$1; root=${2:-/tmp/seed6}
for k in 1 2; do
  src=$root/out_$p/$k
  [ -f $src/patch.diff ] || { echo "$p/$k: no patch"; continue; }
  n=1; while [ -d /verif/seeded/$p-$n ]; do n=$((n+1)); done
  id=$p-$n
  mkdir -p /verif/seeded/$id
  cp $src/patch.diff /verif/seeded/$id/patch.diff
  cp $(ls $src/*_test.go | head -1) /verif/seeded/$id/demo_test.go
  cp $src/notes.md /verif/seeded/$id/notes.md 2>/dev/null
  /verif/tools/seedconfirm.sh $id
  echo "$id $(cat /verif/seeded/$id/confirm.txt | tr '\n' ' ')"
  /verif/tools/seeddetect_wt.sh $id $p
done
