#!/bin/bash
# usage: benigncheck.sh <PROP> <n> [root]   imports <root>/out_<PROP>/<n> as /verif/seeded/benign/<PROP>-b<n> (a behaviour-preserving
# change), applies it to /repo, runs the property's quick check - which must stay silent - and undoes it.
set -u
p=$1; n=$2; root=${3:-/tmp/benign}; src=$root/out_$p/$n; id=$p-b$n; sd=/verif/seeded/benign/$id
mkdir -p $sd
[ -f $src/patch.diff ] && cp $src/patch.diff $sd/patch.diff
[ -f $src/notes.md ] && cp $src/notes.md $sd/notes.md
cd /repo
if [ -n "$(git status --porcelain)" ]; then echo "repo not clean" >&2; exit 2; fi
git apply $sd/patch.diff || { echo "$id patch does not apply" >&2; exit 2; }
cp -p /verif/evidence/$p.json /tmp/evidence_keep_$p.json 2>/dev/null   # evidence files describe the unchanged tree
out=$(/verif/check $p quick 2>&1); rc=$?
mv /tmp/evidence_keep_$p.json /verif/evidence/$p.json 2>/dev/null
{ echo "exit=$rc"; echo "$out" | grep "^FAILED\|^VIOLATION\|^UNDECIDED\|^NOTE: .*dropped\|^property=" | cut -c1-300; } > $sd/check_$p.txt
echo "$id $p exit=$rc $(echo "$out" | grep -c '^VIOLATION') violation(s)"
git apply -R $sd/patch.diff
