#!/usr/bin/env python3
# Builds /verif/seeded/<id>/meta.json and /verif/seeded/DETECTION.md from confirm.txt / detect_<prop>.txt, and refreshes the
# table between the DETECTION-TABLE markers of DESIGN.md.
import os,json,re,glob,subprocess
root='/verif/seeded'
rows=[]
for sid in sorted(d for d in os.listdir(root) if os.path.isdir(os.path.join(root,d)) and d != 'benign'):
    d=os.path.join(root,sid)
    prop=sid.split('-')[0]
    notes=open(os.path.join(d,'notes.md')).read() if os.path.exists(os.path.join(d,'notes.md')) else ''
    title=notes.strip().split('\n')[0].lstrip('# ').strip() if notes else sid
    patch=open(os.path.join(d,'patch.diff')).read()
    files=sorted(set(re.findall(r'^\+\+\+ b/(\S+)',patch,re.M)))
    conf={}
    cp=os.path.join(d,'confirm.txt')
    if os.path.exists(cp):
        for l in open(cp):
            if '=' in l:
                k,v=l.strip().split('=',1); conf[k]=v
    confirmed=(conf.get('applies')=='yes' and conf.get('build_exit')=='0' and conf.get('demo_without_change_exit')=='0'
               and conf.get('demo_with_change_exit') not in (None,'0') and conf.get('suite_with_change_exit')=='0')
    det={}
    for f in sorted(glob.glob(os.path.join(d,'detect_*.txt'))):
        p=os.path.basename(f)[7:-4]
        txt=open(f).read()
        ex=re.search(r'^exit=(\d+)',txt,re.M)
        obl=[re.sub(r' \[.*','',l[len('FAILED obligation '):]) for l in txt.split('\n') if l.startswith('FAILED obligation ')]
        und=[l for l in txt.split('\n') if l.startswith('UNDECIDED')]
        det[p]={"exit":int(ex.group(1)) if ex else None,"failed_obligations":obl,"undecided":len(und)}
    nl=notes.split('\n'); needs=[]
    for i,l in enumerate(nl):
        if i>0 and re.search(r'\bneeds?\b|manifest|trigger',l,re.I):
            t=l.strip(' -*#')
            if l.lstrip().startswith('#') or len(t)<40:   # a heading: take the paragraph below it
                t=(t+': '+' '.join(x.strip(' -*') for x in nl[i+1:i+8] if x.strip() and not x.lstrip().startswith('#'))).strip()
            needs.append(t[:600])
            if len(needs)>=2: break
    meta={"id":sid,"property":prop,"title":title,"needs_to_manifest":needs,"what_was_run":"tools/seedconfirm.sh (scratch worktree: patch applies, go build, demonstration passes without / fails with the change, full suite passes with it) and the quick check of the property (tools/seeddetect_wt.sh / pardetect.py); see confirmation and detection below","files_changed":files,"rebased_onto_fixes":os.path.exists(os.path.join(d,'patch.original.diff')),
          "demonstration":{"file":"demo_test.go","package_dir":conf.get('demo_dir'),"test":conf.get('demo_test')},
          "confirmation":conf,"confirmed":confirmed,"detection":det,
          "apply":"git -C /repo apply /verif/seeded/%s/patch.diff"%sid,"undo":"git -C /repo apply -R /verif/seeded/%s/patch.diff"%sid}
    json.dump(meta,open(os.path.join(d,'meta.json'),'w'),indent=1)
    dd=det.get(prop)
    if dd is None: res='not run'
    elif dd['exit']==1 and dd['failed_obligations']: res='**detected**'
    elif dd['exit']==1: res='detected (undecided/contract target missing)'
    elif dd['exit']==0: res='MISSED'
    else: res='error (exit %s)'%dd['exit']
    ob=(dd['failed_obligations'][0] if dd and dd['failed_obligations'] else '')
    rows.append((sid,title[:90],'yes' if confirmed else 'NO',res,ob[:110]))
tab="| seed | change | confirmed | check `%s` | first failing obligation |\n|---|---|---|---|---|\n"%"<its property>"
for r in rows: tab+="| %s | %s | %s | %s | `%s` |\n"%r
n=sum(1 for r in rows if r[3].startswith('**detected') or r[3].startswith('detected'))
tab+="\n%d of %d seeded changes are reported by the quick check of their property.\n"%(n,len(rows))
open(os.path.join(root,'DETECTION.md'),'w').write("# Seeded changes: confirmation and detection\n\n"+tab)
p='/verif/DESIGN.md'; s=open(p).read()
a='<!-- DETECTION-TABLE -->'; b='<!-- /DETECTION-TABLE -->'
if b in s:
    s=s[:s.index(a)]+a+"\n"+tab+b+s[s.index(b)+len(b):]
else:
    s=s.replace(a,a+"\n"+tab+b,1)
open(p,'w').write(s)
print(n,'of',len(rows),'detected')
