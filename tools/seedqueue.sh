#!/bin/bash
# serial confirmation of a list of seeds: args like C09/1 C10/1
for s in "$@"; do n=${s/\//-}; /verif/tools/seedcheck.sh /tmp/seed/out_$s $n; done
