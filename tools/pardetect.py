#!/usr/bin/env python3
# usage: pardetect.py seeds|benign [K]
# Runs the quick check of its property against every seeded change (or every behaviour-preserving edit) in K parallel scratch
# worktrees of /repo HEAD (outside /repo and /verif, removed afterwards), with a scratch verif directory per worker, so that
# /repo, /verif/evidence and /verif/replays are not touched. Writes seeded/<id>/detect_<P>.txt resp. seeded/benign/<id>/check_<P>.txt.
import os,sys,subprocess,glob,threading,queue,shutil,re
mode=sys.argv[1]; K=int(sys.argv[2]) if len(sys.argv)>2 else 4
env=dict(os.environ,GOFLAGS='-mod=mod',GOPROXY='off',GOSUMDB='off',GOTOOLCHAIN='local',LOG_LEVEL='fatal')
root=os.environ.get('PARROOT','/tmp/par'); os.makedirs(root,exist_ok=True)
jobs=queue.Queue()
if mode=='seeds':
    # PARFIRST: file listing seed ids to run first (e.g. the newest round); PARSKIP: file listing ids to leave out
    first=open(os.environ['PARFIRST']).read().split() if os.environ.get('PARFIRST') else []
    skip=set(open(os.environ['PARSKIP']).read().split()) if os.environ.get('PARSKIP') else set()
    ds=sorted(glob.glob('/verif/seeded/C??-*'),key=lambda d:(0 if os.path.basename(d) in first else 1,d))
    for d in ds:
        sid=os.path.basename(d)
        if sid in skip: continue
        jobs.put((sid,d,sid.split('-')[0],'detect_'))
else:
    only=set(open(os.environ['PARONLY']).read().split()) if os.environ.get('PARONLY') else None
    for d in sorted(glob.glob('/verif/seeded/benign/C??-*')):
        sid=os.path.basename(d)
        if only is not None and sid not in only: continue
        jobs.put((sid,d,sid.split('-')[0],'check_'))
lock=threading.Lock()
def worker(k):
    wt=f'{root}/wt_{k}'; vd=f'{root}/v_{k}'
    subprocess.run(['git','-C','/repo','worktree','remove','--force',wt],capture_output=True); shutil.rmtree(wt,ignore_errors=True)
    subprocess.run(['git','-C','/repo','worktree','add','-q','--detach',wt,'HEAD'],check=True)
    shutil.rmtree(vd,ignore_errors=True); os.makedirs(vd)
    for n in ('contracts','replay','known_findings.json'):
        os.symlink('/verif/'+n,vd+'/'+n)
    while True:
        try: sid,d,prop,pre=jobs.get_nowait()
        except queue.Empty: break
        r=subprocess.run(['git','apply',d+'/patch.diff'],cwd=wt,capture_output=True,text=True)
        if r.returncode!=0:
            with lock: print(sid,prop,'PATCH DOES NOT APPLY',flush=True)
            continue
        r=subprocess.run([os.environ.get('GOVC','/verif/bin/govc'),'-repo',wt,'-verif',vd,'-prop',prop,'-tier','quick','-j','5'],capture_output=True,text=True,env=env)
        out=r.stdout+r.stderr
        out=out.replace(vd+'/replays','/verif/replays')
        keep=[l[:300] for l in out.split('\n') if re.match(r'^(FAILED|VIOLATION|UNDECIDED|NOTE: .*dropped|property=)',l)]
        open(f'{d}/{pre}{prop}.txt','w').write('exit=%d\n'%r.returncode+'\n'.join(keep)+'\n')
        subprocess.run(['git','apply','-R',d+'/patch.diff'],cwd=wt,capture_output=True)
        subprocess.run(['git','checkout','--','.'],cwd=wt,capture_output=True)
        with lock: print(sid,prop,'exit=%d'%r.returncode,sum(1 for l in keep if l.startswith('VIOLATION')),'violation(s)',flush=True)
    subprocess.run(['git','-C','/repo','worktree','remove','--force',wt],capture_output=True); shutil.rmtree(wt,ignore_errors=True); shutil.rmtree(vd,ignore_errors=True)
ts=[threading.Thread(target=worker,args=(k,)) for k in range(K)]
[t.start() for t in ts]; [t.join() for t in ts]
subprocess.run(['git','-C','/repo','worktree','prune'])
