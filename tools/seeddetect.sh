#!/bin/bash
# usage: seeddetect.sh <seed-id> <property> [<property>...]
# Applies the seeded change to /repo, runs the quick check of each property, undoes the change. Writes detect_<prop>.txt
set -u
id="$1"; shift
sd=/verif/seeded/$id
cd /repo
if [ -n "$(git status --porcelain)" ]; then echo "repo not clean" >&2; exit 2; fi
git apply $sd/patch.diff || { echo "patch does not apply" >&2; exit 2; }
for p in "$@"; do
  cp -p /verif/evidence/$p.json /tmp/evidence_keep_$p.json 2>/dev/null   # evidence files describe the unchanged tree
  out=$(/verif/check $p quick 2>&1); rc=$?
  mv /tmp/evidence_keep_$p.json /verif/evidence/$p.json 2>/dev/null
  { echo "exit=$rc"; echo "$out" | grep "^FAILED\|^VIOLATION\|^UNDECIDED\|^property=" | cut -c1-300; } > $sd/detect_$p.txt
  echo "$id $p exit=$rc $(echo "$out" | grep -c '^VIOLATION') violation(s)"
done
git apply -R $sd/patch.diff
# evidence files must describe the unchanged tree: the caller re-runs the checks afterwards
