#!/bin/bash
# runs the quick check of every claimed property (sequentially) and prints the summary lines
for id in $(python3 -c "import json;print(' '.join(c['property_id'] for c in json.load(open('/verif/MANIFEST.json'))['checks']))") "$@"; do
  out=$(/verif/check $id quick 2>&1); rc=$?
  echo "$id exit=$rc $(echo "$out" | grep '^property=' | tail -1)"
  echo "$out" | grep "^VIOLATION\|^UNDECIDED\|^FAILED" | cut -c1-220
done
